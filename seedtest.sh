#!/bin/bash
# usage: seedtest.sh <worktree id> <A|B> <tier> <prop> [<prop>...]
# Applies /tmp/wt/<id>/SEED_<X>/patch.diff in that scratch worktree (rebased on /repo's HEAD), confirms that the
# 116 tests pass and the demo fails, runs the named checks against the scratch tree (DAGRT_REPO), reverts, and
# stores patch + demo + meta.json under /verif/seeded/<id>-<X>/.
id=$1; X=$2; tier=$3; shift 3
wt=/tmp/wt/$id; sd=$wt/SEED_$X; out=/verif/seeded/$id-$X
set -u
cd $wt || exit 2
git checkout -q -- . ; git checkout -q --detach main 2>/dev/null
if ! git apply --check $sd/patch.diff 2>/dev/null; then echo "PATCH DOES NOT APPLY to current main"; exit 3; fi
git apply $sd/patch.diff
tests=$(PYTHONPATH=$wt /venv/bin/python -m pytest -q -p no:cacheprovider --timeout=900 2>&1 | tail -1)
demo_with=$(PYTHONPATH=$wt /venv/bin/python $sd/demo.py 2>&1 | tail -3); demo_with_rc=$?
PYTHONPATH=$wt /venv/bin/python $sd/demo.py >/dev/null 2>&1; demo_with_rc=$?
mkdir -p $out /tmp/seedout/$id-$X
results="{"
for p in "$@"; do
  log=/tmp/seedout/$id-$X/$p.log
  ( cd /verif && DAGRT_REPO=$wt VERIF_OUT_DIR=/tmp/seedout/$id-$X ./check $p --tier $tier > $log 2>&1 ); rc=$?
  nv=$(grep -c '^VIOLATION' $log)
  first=$(grep -m1 'signature=' $log | sed 's/"/\\"/g' | cut -c1-300)
  wall=$(grep -o 'wall=[0-9.]*s' $log | tail -1)
  echo "  $p: exit=$rc violations=$nv $wall $first"
  results="$results\"$p\": {\"exit\": $rc, \"violation_lines\": $nv, \"tier\": \"$tier\", \"first\": \"$first\"},"
done
results="${results%,}}"
git checkout -q -- .
PYTHONPATH=$wt /venv/bin/python $sd/demo.py >/dev/null 2>&1; demo_without_rc=$?
echo "  tests(with patch): $tests | demo rc with=$demo_with_rc without=$demo_without_rc"
cp $sd/patch.diff $sd/demo.py $out/ 2>/dev/null; cp $sd/NOTES.md $out/NOTES.md 2>/dev/null
cat > $out/meta.json <<M
{"seed": "$id-$X", "target_property": "$(echo $id | sed "s/^r[0-9]//" | tr a-z A-Z)", "tests_with_patch": "$tests",
 "demo_exit_with_patch": $demo_with_rc, "demo_exit_without_patch": $demo_without_rc,
 "checks_run": $results,
 "base_commit": "$(git -C /repo rev-parse --short HEAD)",
 "how_run": "seedtest.sh $id $X $tier $*  (patch applied in a scratch worktree of /repo, checks run with DAGRT_REPO pointing at it, then reverted)"}
M
