#!/bin/bash
# usage: benigntest.sh <worktree id> <A|B> [tier]
# Applies /tmp/wt/<id>/SEED_<X>/patch.diff (a PROPERTY-PRESERVING refactoring written by a sub-agent) in that scratch
# worktree, confirms that the 116 tests and the agent's demo pass, and runs the target property's check plus the checks
# of every property anchored in a file the patch touches.  Every check must stay silent (exit 0, no VIOLATION line).
# Stores patch + demo + meta.json under /verif/seeded/benign/<id>-<X>/.
id=$1; X=$2; tier=${3:-quick}
wt=/tmp/wt/$id; sd=$wt/SEED_$X; out=/verif/seeded/benign/$id-$X
target=$(echo $id | sed 's/^b[0-9]//' | tr a-z A-Z)
set -u
cd $wt || exit 2
git checkout -q -- . ; git checkout -q --detach main 2>/dev/null
if ! git apply --check $sd/patch.diff 2>/dev/null; then echo "PATCH DOES NOT APPLY to current main"; exit 3; fi
git apply $sd/patch.diff
files=$(git diff --name-only)
props="$target"
for f in $files; do
  case $f in
    dagrt/language.py) props="$props C01 C02 C04 C08 C11 C16";;
    dagrt/exec_numpy.py) props="$props C01 C02 C04 C08 C09 C11";;
    dagrt/codegen/python.py) props="$props C01 C11 C13 C15";;
    dagrt/codegen/fortran.py) props="$props C03 C12 C13 C15";;
    dagrt/codegen/dag_ast.py) props="$props C05 C06 C03";;
    dagrt/codegen/transform.py) props="$props C07 C03";;
    dagrt/codegen/analysis.py) props="$props C10 C12";;
    dagrt/codegen/utils.py) props="$props C20 C13";;
    dagrt/codegen/codegen_base.py) props="$props C05 C01 C03";;
    dagrt/data.py) props="$props C09 C14 C03";;
    dagrt/expression.py) props="$props C17 C18 C19 C01";;
    dagrt/transform.py) props="$props C16";;
    dagrt/function_registry.py|dagrt/builtins_python.py) props="$props C09 C03 C01";;
    dagrt/utils.py) props="$props C08 C16 C02";;
  esac
done
[ "${4:-}" = "target" ] && props="$target"
props=$(echo $props | tr ' ' '\n' | sort -u | tr '\n' ' ')
tests=$(PYTHONPATH=$wt /venv/bin/python -m pytest -q -p no:cacheprovider --timeout=900 2>&1 | tail -1)
PYTHONPATH=$wt /venv/bin/python $sd/demo.py >/dev/null 2>&1; demo_with_rc=$?
mkdir -p $out /tmp/seedout/$id-$X
results="{"
for p in $props; do
  log=/tmp/seedout/$id-$X/$p.log
  ( cd /verif && DAGRT_REPO=$wt VERIF_OUT_DIR=/tmp/seedout/$id-$X timeout 3000 ./check $p --tier $tier > $log 2>&1 ); rc=$?
  nv=$(grep -c '^VIOLATION' $log)
  first=$(grep -m1 'signature=\|harness error\|HARNESS' $log | sed 's/"/\\"/g' | cut -c1-300)
  echo "  $p: exit=$rc violations=$nv $first"
  results="$results\"$p\": {\"exit\": $rc, \"violation_lines\": $nv, \"tier\": \"$tier\", \"first\": \"$first\"},"
done
results="${results%,}}"
git checkout -q -- .
echo "  files: $(echo $files | tr '\n' ' ') | tests(with patch): $tests | demo rc with=$demo_with_rc"
cp $sd/patch.diff $sd/demo.py $out/ 2>/dev/null; cp $sd/NOTES.md $out/NOTES.md 2>/dev/null
cat > $out/meta.json <<M
{"seed": "$id-$X", "kind": "property-preserving refactoring (false-alarm probe)", "target_property": "$target",
 "files": "$(echo $files | tr '\n' ' ')", "tests_with_patch": "$tests", "demo_exit_with_patch": $demo_with_rc,
 "checks_run": $results,
 "base_commit": "$(git -C /repo rev-parse --short HEAD)",
 "how_run": "benigntest.sh $id $X $tier (patch applied in a scratch worktree of /repo, checks run with DAGRT_REPO pointing at it, then reverted); every check is expected to exit 0"}
M
