"""Explorer kernel: sharded exhaustive enumeration, evidence, replays, known findings.

Every check module (mc/checks/cNN.py) provides

    ID, LEVEL, RULE, TECHNIQUE
    bounds(tier)            -> dict describing the count-based bounds of that tier
    shards(tier, seed)      -> list of picklable shard descriptors (a partition of
                               the enumeration space; deterministic)
    run_shard(desc, acc)    -> explores the shard on the real dagrt code, filling acc
    replay(witness)         -> list of violation dicts for exactly that case

A violation dict is {"sub": sub-oracle, "sig": signature, "witness": json-able,
"detail": str}.  Signatures are "<Cxx>/<sub-oracle>:<canonical shrunk witness>".
"""

import hashlib
import json
import multiprocessing as mp
import os
import sys
import time
import traceback

VERIF = os.path.dirname(os.path.dirname(os.path.abspath(__file__)))
REPO = os.environ.get("DAGRT_REPO", "/repo")
NPROC = int(os.environ.get("VERIF_NPROC", "16"))


def bind_repo():
    """Make `import dagrt` resolve to the working tree under REPO."""
    if sys.path[0] != REPO:
        sys.path.insert(0, REPO)
    import dagrt
    assert os.path.abspath(dagrt.__file__).startswith(os.path.abspath(REPO) + os.sep), \
        (dagrt.__file__, REPO)
    own_uninitialised_memory()
    return dagrt


def own_uninitialised_memory():
    """<builtin>array(n) is numpy.empty: uninitialised memory would be a source of nondeterminism the explorer does
    not own (a schedule that reads a cell before it is written would see garbage that differs from run to run).
    Every float/complex array handed out by numpy.empty is filled with NaN instead."""
    import numpy as np
    if getattr(np.empty, "_verif_owned", False):
        return
    orig = np.empty

    def empty(*a, **k):
        r = orig(*a, **k)
        if r.dtype.kind in "fc":
            r.fill(np.nan)
        return r
    empty._verif_owned = True
    np.empty = empty


def h64(obj):
    if not isinstance(obj, (str, bytes)):
        obj = json.dumps(obj, sort_keys=True, default=repr)
    if isinstance(obj, str):
        obj = obj.encode()
    return int.from_bytes(hashlib.blake2b(obj, digest_size=8).digest(), "big")


class Acc:
    """Per-shard accumulator (merged in the parent)."""

    MAX_OUTCOMES = 400000
    MAX_VIOL_PER_SUB = 6
    MAX_KEYS = 300
    MAX_RECORDS = 2500
    MAX_SAMPLES = 3

    def __init__(self, deadline=None):
        self.evaluations = 0
        self.nontrivial = 0          # enumeration is duplicate-free by construction
        self.states = 0
        self.transitions = 0
        self.traces = 0
        self.excluded = 0
        self.outcomes = set()
        self.outcomes_capped = False
        self.violations = []          # kept records
        self.viol_counts = {}         # sub -> total number seen
        self.samples = []
        self.counters = {}
        self.capped = []
        self.deadline = deadline
        self.errors = []
        self._budget = {}

    # -- recording -------------------------------------------------------
    def outcome(self, key):
        if len(self.outcomes) < self.MAX_OUTCOMES:
            self.outcomes.add(h64(key))
        else:
            self.outcomes_capped = True

    def count(self, name, n=1):
        self.counters[name] = self.counters.get(name, 0) + n

    def sample(self, obj):
        if len(self.samples) < self.MAX_SAMPLES:
            self.samples.append(obj)

    def want_violation(self, sub, key=""):
        """True while the budget for detailed (shrunk) records of this (sub-oracle, cheap pre-classification key)
        is open.  The key keeps numerous manifestations of one cause from crowding out a rarer one."""
        k = (sub, key)
        n = self._budget.get(k, 0)
        if n >= self.MAX_VIOL_PER_SUB or (n == 0 and len(self._budget) >= self.MAX_KEYS):
            return False
        self._budget[k] = n + 1
        return True

    def violation(self, sub, sig, witness, detail=""):
        self.viol_counts[sub] = self.viol_counts.get(sub, 0) + 1
        if len(self.violations) < self.MAX_RECORDS:
            self.violations.append(
                {"sub": sub, "sig": sig, "witness": witness, "detail": str(detail)[:2000]})

    def count_violation(self, sub):
        self.viol_counts[sub] = self.viol_counts.get(sub, 0) + 1

    def out_of_time(self):
        return self.deadline is not None and time.time() > self.deadline

    def cap(self, what):
        if what not in self.capped:
            self.capped.append(what)

    def export(self):
        d = dict(self.__dict__)
        d["outcomes"] = list(self.outcomes)
        return d


_CHECK = None


def _worker(args):
    desc, deadline = args
    acc = Acc(deadline)
    try:
        _CHECK.run_shard(desc, acc)
    except Exception:
        acc.errors.append("shard %r: %s" % (desc, traceback.format_exc()))
    return acc.export()


def load_known():
    known, fixed = {}, []
    path = os.path.join(VERIF, "KNOWN_FINDINGS.txt")
    if os.path.exists(path):
        for line in open(path):
            line = line.rstrip("\n")
            if line.startswith("known:"):
                # known: property=C06 sig=<sig> :: <what fails>
                head, _, what = line.partition(" :: ")
                parts = head.split(" ", 2)
                prop = parts[1].split("=", 1)[1]
                sig = parts[2].split("=", 1)[1]
                known[(prop, sig)] = what
            elif line.startswith("fixed:"):
                fixed.append(line)
    return known, fixed


def write_replay(prop, v):
    d = os.path.join(os.environ.get("VERIF_OUT_DIR", VERIF), "replays", prop)
    os.makedirs(d, exist_ok=True)
    name = hashlib.sha1(v["sig"].encode()).hexdigest()[:16] + ".json"
    path = os.path.join(d, name)
    with open(path, "w") as f:
        json.dump({"property": prop, "sub_oracle": v["sub"], "signature": v["sig"],
                   "witness": v["witness"], "detail": v.get("detail", "")}, f, indent=1,
                  sort_keys=True, default=repr)
    return path


def run_check(check, tier, seed):
    global _CHECK
    _CHECK = check
    t0 = time.time()
    prop = check.ID
    budget = float(os.environ.get("VERIF_BUDGET_S", "0") or 0)
    if not budget:
        budget = check.SAFETY_CAP_S[tier] if hasattr(check, "SAFETY_CAP_S") else \
            (900 if tier == "quick" else 7200)
    deadline = t0 + budget

    descs = check.shards(tier, seed)
    nproc = min(NPROC, max(1, len(descs)))
    merged = Acc()
    results = []
    if nproc == 1 or os.environ.get("VERIF_SERIAL"):
        for d in descs:
            results.append(_worker((d, deadline)))
    else:
        ctx = mp.get_context("fork")
        with ctx.Pool(nproc) as pool:
            for r in pool.imap_unordered(_worker, [(d, deadline) for d in descs], chunksize=1):
                results.append(r)
    outcomes = set()
    for r in results:
        merged.evaluations += r["evaluations"]
        merged.nontrivial += r["nontrivial"]
        merged.states += r["states"]
        merged.transitions += r["transitions"]
        merged.traces += r["traces"]
        merged.excluded += r["excluded"]
        outcomes.update(r["outcomes"])
        merged.outcomes_capped |= r["outcomes_capped"]
        merged.violations.extend(r["violations"])
        for k, n in r["viol_counts"].items():
            merged.viol_counts[k] = merged.viol_counts.get(k, 0) + n
        for k, n in r["counters"].items():
            merged.counters[k] = merged.counters.get(k, 0) + n
        for c in r["capped"]:
            merged.cap(c)
        merged.errors.extend(r["errors"])
    # deterministic samples: smallest by serialisation
    all_samples = [s for r in results for s in r["samples"]]
    all_samples.sort(key=lambda s: (len(json.dumps(s, default=repr)), json.dumps(s, default=repr)))
    merged.samples = all_samples[:4]

    if merged.errors:
        for e in merged.errors[:5]:
            print("HARNESS-ERROR:", e, file=sys.stderr)
        print("harness error in %s: %d shard(s) raised" % (prop, len(merged.errors)))
        return 2

    # ---- violations: dedupe by signature, match known findings ------------
    by_sig = {}
    for v in merged.violations:
        cur = by_sig.get(v["sig"])
        key = (len(json.dumps(v["witness"], default=repr)), json.dumps(v["witness"], default=repr))
        if cur is None or key < cur[0]:
            by_sig[v["sig"]] = (key, v)
    known, _fixed = load_known()
    n_new = 0
    n_known = 0
    exit_code = 0
    for sig in sorted(by_sig):
        v = by_sig[sig][1]
        if (prop, sig) in known:
            n_known += 1
            print("KNOWN-FINDING: property=%s %s [sig=%s; witness=%s]" % (
                prop, known[(prop, sig)], sig,
                json.dumps(v["witness"], default=repr)[:300]))
            continue
        # confirm from the serialised witness (what the replay file holds)
        w = json.loads(json.dumps(v["witness"], default=repr))
        try:
            again = check.replay(w)
        except Exception:
            print("HARNESS-ERROR: replay raised for sig=%s\n%s" % (sig, traceback.format_exc()),
                  file=sys.stderr)
            return 2
        if not any(a["sig"] == sig for a in again):
            print("HARNESS-ERROR: violation did not reproduce from its replay witness: "
                  "sig=%s got=%s" % (sig, [a["sig"] for a in again]), file=sys.stderr)
            return 2
        path = write_replay(prop, v)
        n_new += 1
        exit_code = 1
        print("VIOLATION property=%s replay=%s" % (prop, path))
        if n_new <= 12:
            print("  sub-oracle=%s signature=%s" % (v["sub"], sig))
            print("  detail: %s" % v["detail"][:600].replace("\n", "\n          "))

    wall = time.time() - t0
    cov = {
        "evaluations": merged.evaluations,
        "distinct_nontrivial": merged.nontrivial,
        "rule": check.RULE,
        "samples": merged.samples,
        "exhaustive": not merged.capped,
        "bounds": check.bounds(tier),
        "caps_hit": merged.capped,
        "distinct_outcomes": len(outcomes),
        "distinct_outcomes_capped": merged.outcomes_capped,
        "excluded_out_of_domain": merged.excluded,
        "counters": dict(sorted(merged.counters.items())),
        "violations_seen_by_sub_oracle": dict(sorted(merged.viol_counts.items())),
        "distinct_violation_signatures": len(by_sig),
        "known_findings_matched": n_known,
        "shards": len(descs),
        "workers": nproc,
        "repo": REPO,
    }
    if check.LEVEL == "model_checking":
        cov["states"] = merged.states
        cov["transitions"] = merged.transitions
        cov["traces_validated_against_impl"] = merged.traces
    if hasattr(check, "evidence_extra"):
        cov.update(check.evidence_extra(tier, merged))
    ev = {
        "property_id": prop,
        "tier": tier,
        "seed": seed,
        "level": check.LEVEL,
        "coverage": cov,
        "assumptions": list(getattr(check, "ASSUMPTIONS", [])),
        "wall_s": round(wall, 2),
        "violations": n_new,
    }
    evdir = os.path.join(os.environ.get("VERIF_OUT_DIR", VERIF), "evidence")
    os.makedirs(evdir, exist_ok=True)
    with open(os.path.join(evdir, prop + ".json"), "w") as f:
        json.dump(ev, f, indent=1, sort_keys=True, default=repr)
        f.write("\n")
    print("%s tier=%s seed=%d evaluations=%d nontrivial=%d outcomes=%d states=%d transitions=%d "
          "excluded=%d violations(new)=%d known=%d caps=%s wall=%.1fs" % (
              prop, tier, seed, merged.evaluations, merged.nontrivial, len(outcomes),
              merged.states, merged.transitions, merged.excluded, n_new, n_known,
              merged.capped, wall))
    return exit_code


def run_replay(check, path):
    data = json.load(open(path))
    out = check.replay(data["witness"])
    known, _ = load_known()
    code = 0
    for v in out:
        if (check.ID, v["sig"]) in known:
            print("KNOWN-FINDING: property=%s %s [sig=%s]" % (check.ID, known[(check.ID, v["sig"])],
                                                            v["sig"]))
        else:
            print("VIOLATION property=%s replay=%s" % (check.ID, path))
            print("  sub-oracle=%s signature=%s" % (v["sub"], v["sig"]))
            print("  detail: %s" % v["detail"][:1500])
            code = 1
    if not out:
        print("replay: no violation on this tree for %s" % path)
    return code


# ---- small generic helpers -------------------------------------------------

def shrink_list(items, fails):
    """Greedy one-at-a-time removal while `fails(items)` stays true (deterministic)."""
    items = list(items)
    changed = True
    while changed:
        changed = False
        for i in range(len(items)):
            cand = items[:i] + items[i + 1:]
            if fails(cand):
                items = cand
                changed = True
                break
    return items


class Budget(Exception):
    pass


def with_line_budget(fn, limit):
    """Run fn() under a line-event budget so that non-termination is decided."""
    count = [0]

    def tracer(frame, event, arg):
        if event == "line":
            count[0] += 1
            if count[0] > limit:
                raise Budget()
        return tracer

    old = sys.gettrace()
    sys.settrace(tracer)
    try:
        return fn()
    finally:
        sys.settrace(old)


import contextlib
import signal


@contextlib.contextmanager
def time_limit(seconds):
    """Wall-clock guard around a call that must terminate (main thread only).
    A hit is only a *suspicion*: callers confirm with with_line_budget()."""
    def handler(signum, frame):
        raise Budget()
    old = signal.signal(signal.SIGALRM, handler)
    signal.setitimer(signal.ITIMER_REAL, seconds)
    try:
        yield
    finally:
        signal.setitimer(signal.ITIMER_REAL, 0)
        signal.signal(signal.SIGALRM, old)
