"""C11 -- a failing user function leaves the stepper consistent and resumable.

Fault enumeration: for every description (C01-style init -> main -> aux, `main` body with <= k items,
at least one user-function call) and EVERY (call site, occurrence) that occurs in the fault-free
reference run of the first or second execution of `main`, that invocation raises a marker
exception -- in the interpreter and in the generated Python class.  Checked: the escaping
exception is the injected object; no per-step temporary is visible afterwards; every persistent
variable (arrays cell by cell) holds its pre-step value or a value written by a write that does
not depend on the failed invocation; resuming for m steps equals a fresh stepper started in
that state and phase.
"""

import copy
import json

import numpy as np

from mc import kernel, prog
from mc.checks import c01
from mc.refexpr import Undefined, canon

ID = "C11"
LEVEL = "fault_enumeration"
TECHNIQUE = ("exhaustive fault-point enumeration: every (call site, occurrence, step) of every program in a bounded "
             "program space, on both backends, with a taint-aware reference for the allowed post-fault states and a "
             "differential fresh-stepper oracle for resumption")
RULE = ("bodies with <= k items over the C11 alphabet containing >= 1 call (each call site has its own harness function, "
        "used at most once per body); fault points = every invocation seen in the fault-free reference run of the 1st and "
        "2nd execution of main; evaluations = (description, fault point, backend) runs; non-trivial = fault points at which "
        "at least one persistent variable had already been changed by the step or is written later in the step; "
        "distinct_outcomes = distinct post-fault stores")
ASSUMPTIONS = ["user functions are otherwise pure and deterministic", "deviation bound: 1 injected fault per run "
               "(thorough adds a second fault during the resumed steps)"]
LEVEL_TEXT = ("Every call index at which a user function can fail is enumerated for every program in the bounded space and "
              "executed on both backends; the post-fault state is checked against the set allowed by a reference that tracks "
              "which writes depend on the failed invocation, and resumption is compared with a fresh stepper.")
LEVEL_NOTE = ("Trusted: reference executor and its differential taint computation (a write counts as independent of the "
              "failed call if it occurs with the same value whether the call returns v or v+1000: lenient by construction).")

A = c01.A


class Marker(Exception):
    pass


def _marker(base):
    return type("Marker" + base.__name__, (base,), {})


# the class of the injected exception is part of the fault alphabet: library code that catches a standard class
# around a user call (KeyError from a table lookup, AttributeError from a missing method, ...) must not catch the user's
MARKER_CLASSES = [Marker] + [_marker(b) for b in (KeyError, ValueError, TypeError, AttributeError, LookupError,
                                                  RuntimeError, ArithmeticError, AssertionError, IndexError,
                                                  NotImplementedError)]


class Site:
    """harness-owned user function: counts invocations, fails at one absolute invocation index"""

    def __init__(self, name, impl):
        self.name = name
        self.impl = impl
        self.count = 0
        self.fail_at = None        # absolute invocation number (1-based) or None
        self.alt_at = None         # reference only: return impl()+1000 at that invocation
        self.injected = None
        self.exc_class = Marker
        self.log = None            # optional per-step invocation log

    def __call__(self, *a, **k):
        self.count += 1
        if self.log is not None:
            self.log.append(self.name)
        if self.fail_at is not None and self.count == self.fail_at:
            self.injected = self.exc_class("injected fault in %s call %d" % (self.name, self.count))
            raise self.injected
        r = self.impl(*a, **k)
        if self.alt_at is not None and self.count == self.alt_at:
            if isinstance(r, tuple):
                return tuple(x + 1000 for x in r)
            return r + 1000
        return r


IMPLS = {
    "fA": lambda x: 2 * x + 1,
    "fB": lambda x: x + 3,
    "fC": lambda x: 3 * x,
    "fD": lambda x: x + 1,
    "fE": lambda x: 5 * x + 2,
    "fF": lambda x: x + 7,
    "fG": lambda x, y: (x + y, x - y),
    "fH": lambda x, y: 10 * x + y,
    "fI": lambda x: x + 11,
    "fJ": lambda x: x * 2,
}


def new_sites():
    return {"<func>" + n: Site(n, f) for n, f in IMPLS.items()}


ATOMS = {
    "b=fA(a)": [A("<p>b", "<func>fA(<p>a)")],
    "a=1+fB(fC(b))": [A("<p>a", "1 + <func>fB(<func>fC(<p>b))")],
    "r[i]=fE(i)+a": [A("<p>r[i]", "<func>fE(i) + <p>a", [("i", "0", "3")])],
    "yield fF(a)": [["Y", "<func>fF(<p>a)", "y", "<t>", "fy"]],
    "u,v=fG(a,b)": [A(["u", "v"], "<func>fG(<p>a, <p>b)"), A("<p>a", "u * 10 + v")],
    "b=fH(a,y=b)": [A("<p>b", "<func>fH(<p>a, y=<p>b)")],
    "a=fI?": [A("<p>a", "(<func>fI(<p>a) if <p>b > 1 else <p>b)")],
    "u=fJ(a);b=u": [A("u", "<func>fJ(<p>a)"), A("<p>b", "u"), A("<p>c", "<p>c + 100")],
    # plain items
    "a+=1": [A("<p>a", "<p>a + 1")],
    "b=2a": [A("<p>b", "<p>a * 2")],
    "y=y+a": [A("<state>y", "<state>y + <p>a")],
    "t+=dt": [A("<t>", "<t> + <dt>")],
    "r[1]=b": [A("<p>r[1]", "<p>b")],
    "w=a+1;c=w": [A("w", "<p>a + 1"), A("<p>c", "w")],
    "yield a": [["Y", "<p>a", "y", "<t> + <dt>", "final"]],
    "fail": [["FAIL"]],
    "switch aux": [["SW", "aux"]],
}
CALL_ATOMS = ["b=fA(a)", "a=1+fB(fC(b))", "r[i]=fE(i)+a", "yield fF(a)", "u,v=fG(a,b)", "b=fH(a,y=b)", "a=fI?",
              "u=fJ(a);b=u"]
CONDS = dict(c01.CONDS)
CONDS["s:fD(a)>1"] = ["s", "<func>fD(<p>a) > 1"]
COND_LIST = ["s:a>1", "s:fD(a)>1", "e3:y==0"]


def bounds(tier):
    return {"k": 3 if tier == "quick" else 4, "atoms": len(ATOMS), "call_atoms": len(CALL_ATOMS),
            "conds": len(COND_LIST),
            "faults_per_run": "1" if tier == "quick" else "1 for all bodies; 2 for bodies with <= 2 items (second fault at "
            "every invocation of 3 resumed steps after a first fault in the first execution of main)",
            "faulted_step": "1st and 2nd execution of main", "resume_steps": 3, "inputs": len(INPUTS),
            "exception_classes": "%d (marker subclasses of Exception, KeyError, ValueError, TypeError, AttributeError, "
            "LookupError, RuntimeError, ArithmeticError, AssertionError, IndexError, NotImplementedError): all of them at "
            "every fault point of bodies with <= 2 items, one class per fault point (rotating) for larger bodies"
            % len(MARKER_CLASSES),
            "function_objects": "the resumed stepper keeps the function objects it was constructed with while a second "
            "stepper with its own function objects is alive; per-function invocation counts must agree"}


def expand(shape):
    body = []
    for n in shape:
        if isinstance(n, str):
            body.extend(ATOMS[n])
        else:
            body.append(["IF", CONDS[n[1]], expand(n[2]), expand(n[3]) if n[3] is not None else None])
    return body


def call_names(shape):
    out = []
    for n in shape:
        if isinstance(n, str):
            if n in CALL_ATOMS:
                out.append(n)
        else:
            if n[1] == "s:fD(a)>1":
                out.append(n[1])
            out += call_names(n[2])
            if n[3] is not None:
                out += call_names(n[3])
    return out


def space_iter(k, tier):
    atoms = list(ATOMS)
    if tier == "thorough":
        atoms4 = CALL_ATOMS + ["a+=1", "y=y+a", "fail", "yield a"]
    for kk in range(1, k + 1):
        use = atoms if kk <= 3 else atoms4
        for shape in c01.gen_bodies(kk, use, COND_LIST):
            cn = call_names(shape)
            if not cn or len(set(cn)) != len(cn):
                continue
            yield shape


def shards(tier, seed):
    m = 64 if tier == "quick" else 256
    return [{"tier": tier, "mod": m, "rem": r} for r in range(m)]


INPUTS = c01.INPUTS


# ---- reference with write log ----------------------------------------------------------

class LogStore(dict):
    def __init__(self, *a):
        super().__init__(*a)
        self.wlog = []

    def __setitem__(self, k, v):
        self.wlog.append((k, None, json.dumps(canon(v))))
        super().__setitem__(k, v)


class LogArray(np.ndarray):
    pass


def ref_fault_analysis(phases, inp, n_steps):
    """Fault-free reference run.  Returns per step: (phase, pre-store, per-site invocation counts before the step,
    invocation sequence in the step) and the reference observations."""
    sites = new_sites()
    store = {"<t>": inp["t"], "<dt>": inp["dt"]}
    for k, v in inp["state"].items():
        store["<state>" + k] = v
    nxt = "init"
    steps = []
    for _ in range(n_steps):
        cur = nxt
        body, default = phases[cur]
        nxt = default
        pre = copy.deepcopy(store)
        before = {n: s.count for n, s in sites.items()}
        log = []
        for s in sites.values():
            s.log = log
        st = prog.RefStep(store, sites, cur)
        kind, arg = st.run(body)
        prog.persistent_filter(store)
        if kind == "switch":
            nxt = arg
        steps.append({"phase": cur, "pre": pre, "before": before, "calls": list(log), "kind": kind,
                      "next": nxt})
        if kind in ("raise", "crash"):
            break
    return steps


def allowed_values(phases, step, site_name, occ):
    """Values an untainted write may leave in each persistent variable / array cell during `step`,
    when invocation `occ` (1-based within the step) of site_name fails."""
    logs = []
    for alt in (False, True):
        sites = new_sites()
        for n, s in sites.items():
            s.count = step["before"][n]
        if alt:
            sites["<func>" + site_name].alt_at = step["before"]["<func>" + site_name] + occ
        store = LogStoreWrap(copy.deepcopy(step["pre"]))
        st = prog.RefStep(store, sites, step["phase"])
        body, _ = phases[step["phase"]]
        try:
            st.run(body)
        except Exception:
            pass
        logs.append(store.wlog)
    common = set(logs[0]) & set(logs[1])
    allowed = {}
    for name, idx, val in common:
        allowed.setdefault((name, idx), set()).add(val)
    return allowed


class LogStoreWrap(dict):
    """dict that logs scalar writes and array-cell writes (arrays are wrapped on read)."""

    def __init__(self, d):
        super().__init__(d)
        self.wlog = []

    def __setitem__(self, k, v):
        if isinstance(v, np.ndarray):
            for i, x in enumerate(v.tolist()):
                self.wlog.append((k, i, json.dumps(canon(x))))
        else:
            self.wlog.append((k, None, json.dumps(canon(v))))
        super().__setitem__(k, v)

    def __getitem__(self, k):
        v = super().__getitem__(k)
        if isinstance(v, np.ndarray):
            return _ArrProxy(v, k, self.wlog)
        return v


class _ArrProxy:
    def __init__(self, arr, name, wlog):
        self.arr, self.name, self.wlog = arr, name, wlog

    def __getitem__(self, i):
        return self.arr[i]

    def __setitem__(self, i, v):
        n = len(self.arr)
        self.wlog.append((self.name, int(i) % n if n else int(i), json.dumps(canon(v))))
        self.arr[i] = v

    def __neg__(self):
        return -self.arr

    def __array__(self, *a, **k):
        return self.arr


# ---- driving the real steppers --------------------------------------------------------------

class InterpBackend:
    name = "interp"

    def __init__(self, dag):
        self.dag = dag

    def new(self, sites):
        return prog.make_interp(self.dag, sites)

    def store(self, st):
        return prog.interp_store(st)

    def raw_keys(self, st):
        return set(st.context)

    def visible_temporaries(self, st):
        return sorted(k for k in st.context if not prog.is_persistent(k))

    def clone_state_into(self, src, dst):
        for k, v in src.context.items():
            dst.context[k] = copy.deepcopy(v)
        dst.next_phase = src.next_phase


class GenBackend:
    name = "codegen"

    def __init__(self, dag):
        self.g = prog.GeneratedStepper(dag)
        self.allowed_attrs = None

    def new(self, sites):
        return self.g.new(sites)

    def store(self, obj):
        return self.g.store(obj)

    def visible_temporaries(self, obj):
        """instance attributes that neither hold a persistent variable nor exist on a stepper of the same class
        that has only ever completed steps (whatever book-keeping attributes the generator chooses to use)"""
        if self.allowed_attrs is None:
            ok = {a[len("self."):] for a in self.g.global_map.values()}
            for inp in INPUTS[:2]:
                st = self.new(new_sites())
                ok |= set(st.__dict__)
                st.set_up(t_start=inp["t"], dt_start=inp["dt"],
                          context={k: copy.deepcopy(v) for k, v in inp["state"].items()})
                ok |= set(st.__dict__)
                try:
                    n = 0
                    for ev in st.run(max_steps=4):
                        if type(ev).__name__ in ("StepCompleted", "StepFailed"):
                            ok |= set(st.__dict__)
                            n += 1
                            if n >= 6:       # steps that always fail never reach max_steps
                                break
                except Exception:
                    pass
            self.allowed_attrs = ok
        return sorted(k for k in obj.__dict__ if k not in self.allowed_attrs)

    def persistent_attrs(self):
        return {a[len("self."):] for a in self.g.global_map.values()}

    def drop_persistent(self, obj):
        for k in list(obj.__dict__):
            if k in self.persistent_attrs() and k not in ("t", "dt"):
                del obj.__dict__[k]

    def clone_state_into(self, src, dst):
        for k, v in src.__dict__.items():
            if k == "next_phase" or k in self.persistent_attrs():
                dst.__dict__[k] = copy.deepcopy(v)


def run_until_fault(backend, sites, inp, n_steps):
    """Steps the stepper; returns (stepper, stores after each completed/failed step, exception or None)."""
    st = backend.new(sites)
    st.set_up(t_start=inp["t"], dt_start=inp["dt"],
              context={k: copy.deepcopy(v) for k, v in inp["state"].items()})
    stores = []
    exc = None
    nsteps = 0
    try:
        # bare single steps give exact control over the step count, run() adds its own loop:
        # use run() (the documented driver) and count step events
        gen = st.run(max_steps=n_steps)
        for ev in gen:
            n = type(ev).__name__
            if n in ("StepCompleted", "StepFailed"):
                stores.append(backend.store(st))
                nsteps += 1
                if nsteps >= n_steps + 4:
                    break
    except Exception as e:
        exc = e
    return st, stores, exc


def observe_resume(backend, st, m):
    obs = []
    try:
        for ev in st.run(max_steps=m):
            c = prog._canon_event(ev)
            obs.append(c)
            if c[0] in ("completed", "failed"):
                obs.append(["store", backend.store(st), st.next_phase])
            if len(obs) > 30:
                obs.append(["horizon"])
                break
    except Exception as e:
        obs.append(prog.exc_kind(e))
    return obs


def check_description(shape, acc=None, second_fault=False):
    phases_l = [("init", c01.INIT, "main"), ("main", expand(shape), "aux"), ("aux", c01.AUX, "main")]
    phases = {n: (b, nx) for n, b, nx in phases_l}
    fails = []
    plans = []
    try:
        for inp in INPUTS:
            plans.append(ref_fault_analysis(phases, inp, 4))
    except Undefined:
        return "excluded", 0
    except Exception:
        return "excluded", 0
    try:
        dag = prog.build_dag(phases_l, "init")
        backends = [InterpBackend(dag), GenBackend(dag)]
    except Exception as e:
        return [("builder-or-codegen-raises", "%s: %s" % (type(e).__name__, e))], 0
    nfaults = 0
    for inp, steps in zip(INPUTS, plans):
        if any(s["kind"] in ("raise", "crash") for s in steps):
            continue
        for si, step in enumerate(steps):
            if step["phase"] != "main":
                continue
            seen_occ = {}
            for cname in step["calls"]:
                seen_occ[cname] = seen_occ.get(cname, 0) + 1
                occ = seen_occ[cname]
                nfaults += 1
                allowed = allowed_values(phases, step, cname, occ)
                if len(shape) <= 2:
                    classes = MARKER_CLASSES
                else:
                    classes = [MARKER_CLASSES[nfaults % len(MARKER_CLASSES)]]
                for be in backends:
                    for cls in classes:
                        r = run_fault(be, phases, inp, steps, si, cname, occ, allowed, acc, cls)
                        if r is not None and not any(f[0] == r[0] for f in fails):
                            fails.append(r)
                        if r is not None:
                            break
                    if r is None and second_fault and si == 1:
                        r2, n2 = run_second_faults(be, inp, steps, si, cname, occ, acc)
                        nfaults += n2
                        if r2 is not None and not any(f[0] == r2[0] for f in fails):
                            fails.append(r2)
    return fails, nfaults


def _after_first_fault(be, inp, steps, si, cname, occ):
    sites = new_sites()
    sites["<func>" + cname].fail_at = steps[si]["before"]["<func>" + cname] + occ
    st, _, _ = run_until_fault(be, sites, inp, len(steps))
    for s in sites.values():
        s.fail_at = None
    return st, sites


def run_second_faults(be, inp, steps, si, cname, occ, acc):
    """deviation bound 2: after the first fault, every invocation of every site during 3 resumed steps fails in turn.
    Checked: exception identity, no visible temporaries, resumption equals a fresh stepper (the allowed-values
    clause needs step boundaries of the reference and is checked for the first fault only)."""
    st, log_sites = _after_first_fault(be, inp, steps, si, cname, occ)
    base = {n_: s.count for n_, s in log_sites.items()}
    observe_resume(be, st, 3)
    n = 0
    for fname, site in sorted(log_sites.items()):
        for k in range(1, site.count - base[fname] + 1):
            n += 1
            st, sites2 = _after_first_fault(be, inp, steps, si, cname, occ)
            sites2[fname].fail_at = base[fname] + k
            sites2[fname].injected = None
            sites2[fname].exc_class = MARKER_CLASSES[n % len(MARKER_CLASSES)]
            exc = None
            try:
                cnt = 0
                for ev in st.run(max_steps=3):
                    cnt += 1
                    if cnt > 40:
                        break
            except Exception as e:
                exc = e
            if acc is not None:
                acc.evaluations += 1
                acc.count("second_fault_runs")
            where = "backend=%s input y=%s first fault %s#%d in step %d, second fault %s call %d of the resumed run" % (
                be.name, inp["state"]["y"], cname, occ, si + 1, fname, k)
            inj = sites2[fname].injected
            if exc is None:
                if inj is None:
                    continue        # the resumed run with this prefix did not reach the call (horizon)
                return ("exception-swallowed(%s)" % be.name, "%s: the injected exception never reached the caller" % where), n
            if exc is not inj:
                return ("exception-identity(%s)" % be.name, "%s: caller received %s: %s" % (
                    where, type(exc).__name__, str(exc)[:200])), n
            temps = be.visible_temporaries(st)
            if temps:
                return ("temporary-visible(%s)" % be.name, "%s: the stepper still holds %s" % (where, temps)), n
            fresh = be.new(new_sites())
            if isinstance(be, GenBackend):
                fresh.set_up(t_start=0, dt_start=0, context={})
                be.drop_persistent(fresh)
            be.clone_state_into(st, fresh)
            sites2[fname].fail_at = None
            o1 = observe_resume(be, st, 3)
            o2 = observe_resume(be, fresh, 3)
            if o1 != o2:
                return ("resume-differs(%s)" % be.name, "%s: continuing gives %s, a fresh stepper %s" % (
                    where, json.dumps(o1)[:300], json.dumps(o2)[:300])), n
    return None, n


def run_fault(be, phases, inp, steps, si, cname, occ, allowed, acc, cls=Marker):
    step = steps[si]
    sites = new_sites()
    sites["<func>" + cname].fail_at = step["before"]["<func>" + cname] + occ
    sites["<func>" + cname].exc_class = cls
    st, stores, exc = run_until_fault(be, sites, inp, len(steps))
    where = "backend=%s input y=%s fault=%s#%d (a %s) in step %d (%s)" % (
        be.name, inp["state"]["y"], cname, occ, cls.__bases__[0].__name__, si + 1, step["phase"])
    if acc is not None:
        acc.evaluations += 1
    inj = sites["<func>" + cname].injected
    if exc is None:
        if inj is None:
            return ("fault-not-reached(%s)" % be.name,
                    "%s: the reference performs this invocation but the backend never did" % where)
        return ("exception-swallowed(%s)" % be.name, "%s: the injected exception never reached the caller" % where)
    if exc is not inj:
        return ("exception-identity(%s)" % be.name, "%s: caller received %s: %s instead of the injected exception" % (
            where, type(exc).__name__, str(exc)[:200]))
    if len(stores) != si:
        return ("fault-step(%s)" % be.name, "%s: fault surfaced after %d completed steps" % (where, len(stores)))
    temps = be.visible_temporaries(st)
    if temps:
        return ("temporary-visible(%s)" % be.name, "%s: after the exception the stepper still holds %s" % (where, temps))
    # allowed values
    post = be.store(st)
    pre = prog.snapshot(step["pre"])
    nontrivial = False
    for name in set(post) | set(pre):
        pv, qv = pre.get(name, "<absent>"), post.get(name, "<absent>")
        if name not in post and isinstance(be, GenBackend) and name not in be.g.global_map:
            continue
        if isinstance(qv, list) and qv and qv[0] == "arr" and isinstance(pv, list) and pv and pv[0] == "arr":
            for i, (a, b) in enumerate(zip(pv[2], qv[2])):
                if a != b:
                    nontrivial = True
                    if json.dumps(b) not in allowed.get((name, i), ()):
                        return ("value-not-allowed(%s)" % be.name,
                                "%s: %s[%d] = %s; before the step %s; writes independent of the failed call may "
                                "leave %s" % (where, name, i, b, a, sorted(allowed.get((name, i), ()))))
        elif pv != qv:
            nontrivial = True
            if json.dumps(qv) not in allowed.get((name, None), ()):
                return ("value-not-allowed(%s)" % be.name,
                        "%s: %s = %s; before the step %s; writes independent of the failed call may leave %s" % (
                            where, name, qv, pv, sorted(allowed.get((name, None), ()))))
    if acc is not None:
        if nontrivial or allowed:
            acc.nontrivial += 1
        acc.outcome(json.dumps(post, sort_keys=True))
    # resumption vs fresh stepper (observations are per step, so m=3 contains m=1 and m=2 as prefixes)
    m = 3
    sites_b = new_sites()
    fresh = be.new(sites_b)
    if isinstance(be, GenBackend):
        fresh.set_up(t_start=0, dt_start=0, context={})
        be.drop_persistent(fresh)
    be.clone_state_into(st, fresh)
    # continue on the ORIGINAL object with the functions it was constructed with (that is the claim); the fresh
    # stepper, alive at the same time, has its own function objects
    for s in sites.values():
        s.fail_at = None
    base = {n: s.count for n, s in sites.items()}
    o1 = observe_resume(be, st, m)
    own = {n: s.count - base[n] for n, s in sites.items() if s.count - base[n]}
    o2 = observe_resume(be, fresh, m)
    other = {n: s.count for n, s in sites_b.items() if s.count}
    if o1 != o2:
        return ("resume-differs(%s)" % be.name,
                "%s: continuing for %d step(s) gives %s, a fresh stepper in the same state and phase gives %s" % (
                    where, m, json.dumps(o1)[:400], json.dumps(o2)[:400]))
    if own != other:
        return ("calls-another-steppers-functions(%s)" % be.name,
                "%s: while resuming, the stepper invoked the functions it was constructed with %s times; a second "
                "stepper constructed with its own function objects invoked those %s times" % (where, own, other))
    return None


def shrink_shape(shape, sub):
    def fails(s):
        cn = call_names(s)
        if not cn or len(set(cn)) != len(cn):
            return False
        r, _ = check_description(s)
        return r != "excluded" and any(f[0] == sub for f in r)
    cur = shape
    from mc.checks.c02 import _cands
    while True:
        for c in _cands(cur):
            if c and fails(c):
                cur = c
                break
        else:
            return cur


def violation_records(shape, fails):
    out = []
    for sub, detail in fails:
        s = shrink_shape(shape, sub)
        r, _ = check_description(s)
        dd = [f for f in (r if r != "excluded" else []) if f[0] == sub]
        if not dd:
            s, dd = shape, [(sub, detail)]
        d = dd[0][1]
        out.append({"sub": sub, "sig": "C11/%s:%s" % (sub, c01.shape_str(s)),
                    "witness": {"shape": s, "found_as": c01.shape_str(shape)},
                    "detail": "body: %s\n%s" % (c01.shape_str(s), d)})
    return out


def run_shard(desc, acc):
    k = 3 if desc["tier"] == "quick" else 4
    for i, shape in enumerate(space_iter(k, desc["tier"])):
        if i % desc["mod"] != desc["rem"]:
            continue
        if acc.out_of_time():
            acc.cap("time cap in shard %r" % desc)
            return
        r, nf = check_description(shape, acc, second_fault=(desc["tier"] == "thorough" and len(shape) <= 2))
        if r == "excluded":
            acc.excluded += 1
            continue
        acc.count("descriptions")
        acc.count("fault_points", nf)
        if r:
            todo = [f for f in r if acc.want_violation(f[0])]
            for f in r:
                if f not in todo:
                    acc.count_violation(f[0])
            for v in violation_records(shape, todo):
                acc.violation(v["sub"], v["sig"], v["witness"], v["detail"])
        elif i % 200 == 0:
            acc.sample({"main_body": c01.shape_str(shape), "fault_points_explored": nf})


def replay(witness):
    shape = witness["shape"]
    r, _ = check_description(shape)
    if r == "excluded" or not r:
        return []
    return violation_records(shape, r)
