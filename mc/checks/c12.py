"""C12 -- generated Fortran never leaks, double-frees or uses freed user-type storage.

All Fortran-subset programs whose `main` body has <= k items manipulating reference-counted
user-type storage (temporaries from calls / expressions, moves, overwrites, never-read values,
self-updates, two-result calls, yields; inside guards and counted loops; with fail / switch /
restart before, between and after) are generated, compiled with gfortran
-fsanitize=address -fcheck=pointer together with a driver that takes the history from its
command line, and run under EVERY history of <= n run calls (each call with <dt> chosen so
that the guards written against <dt> are true or false), followed by shutdown.
"""

import itertools
import json
import os
import re

from mc import fortranlab, kernel, prog
from mc.checks import c01, c03

ID = "C12"
LEVEL = "fault_enumeration"
TECHNIQUE = ("bounded exhaustive enumeration of user-type programs x ALL run-call histories (guard valuations per call "
             "select completed / failed / switched / skipped-guard steps) on the compiled module under AddressSanitizer + "
             "LeakSanitizer + -fcheck=pointer")
RULE = ("bodies = sequences of <= k items; histories = all dt-sequences over {1.0, 0.25} of length 1..n (dt steers every "
        "guard); one sanitizer-instrumented process per (program, history); evaluations = processes run; non-trivial = "
        "histories in which at least one step is cut short or a guard is skipped; distinct_outcomes = distinct "
        "(program, history) pairs that ran clean")
ASSUMPTIONS = ["gfortran 12 ASan/LSan are the memory oracle; one user type (vector of length 3)"]
LEVEL_TEXT = ("Every early-exit / skipped-guard history up to n calls is enumerated for every program in the bounded space and "
              "executed under AddressSanitizer and LeakSanitizer; shutdown's own leak report is checked as well.")
LEVEL_NOTE = "Trusted: ASan/LSan of gfortran 12, the generated driver."

A = c01.A
Y = c03.Y

G = ["s", "<dt> > 0.5"]


def guarded(ops):
    return [["IF", G, ops, None]]


BASE = {
    "w=f(y)": [A("w", "<func>f(<t>, <state>y)")],
    "euler": [A("w", "<func>f(<t>, <state>y)"), A("<state>y", "<state>y + <dt>*w")],
    "w=2y;y=w": [A("w", "<state>y * 2"), A("<state>y", "w")],
    "move": [A("w", "<state>y * 2"), A("v", "w"), A("<state>y", "v")],
    "pw=y": [A("<p>w", "<state>y")],
    "w=pw;y=w+y": [A("w", "<p>w"), A("<state>y", "w + <state>y")],
    "overwrite": [A("w", "<state>y * 2"), A("w", "<state>y * 3"), A("<state>y", "w")],
    "never-read": [A("w", "<state>y * 2")],
    "self-update": [A("<p>w", "<p>w + <state>y")],
    "g2": [A(["w", "<p>s"], "<func>g2(<state>y, <p>s)"), A("<state>y", "w")],
    "g2-unused": [A(["w", "<p>s"], "<func>g2(<state>y, <p>s)")],
    "yield w": [A("w", "<state>y * 3"), Y("w", "<t> + <dt>")],
    "yield y": [Y("<state>y")],
    "loop-use": [A("w", "<func>f(<t>, <state>y)"), A("<p>r[i]", "<builtin>norm_2(w) + i", [("i", "0", "3")])],
    "loop-make": [A("<p>r[i]", "<builtin>norm_2(<func>f(<t> + i, <state>y))", [("i", "0", "3")])],
    "loop-use-guarded": [A("w", "<func>f(<t>, <state>y)"),
                         ["IF", G, [A("<p>r[i]", "<builtin>norm_2(w) + i", [("i", "0", "3")])], None]],
    "loop-use-ifexp": [A("w", "<func>f(<t>, <state>y)"),
                       A("<p>r[i]", "<builtin>norm_2((w if i > 0 else <state>y)) + i", [("i", "0", "3")])],
    "w-then-guarded-use": [A("w", "<state>y * 2"), ["IF", G, [A("<state>y", "w")], None]],
    "w-guarded-then-use": [["IF", G, [A("w", "<state>y * 2")], [A("w", "<state>y * 4")]], A("<state>y", "w")],
}
CONTROL = {
    "fail-if": [["IF", G, [["FAIL"]], None]],
    "fail": [["FAIL"]],
    "switch-if": [["IF", G, [["SW", "aux"]], None]],
    "restart-if": [["IF", G, [["RESTART"]], None]],
}
ATOMS = dict(BASE)
for k_, v_ in BASE.items():
    if k_ not in ("w-then-guarded-use", "w-guarded-then-use", "loop-use", "loop-make", "loop-use-guarded",
                  "loop-use-ifexp"):
        ATOMS["if{" + k_ + "}"] = guarded(v_)
ATOMS.update(CONTROL)

INIT = c03.INIT
AUX = [A("<p>c", "<p>c + 1"), A("v", "<state>y * 0.5"), ["IF", G, [["FAIL"]], None], A("<state>y", "v")]

DTS = [1.0, 0.25]


def histories(n):
    for k in range(1, n + 1):
        yield from itertools.product(DTS, repeat=k)


def describe(names):
    body = []
    for nm in names:
        body.extend(ATOMS[nm])
    return [("init", INIT, "main"), ("main", body, "aux"), ("aux", AUX, "main")]


def driver(fields_unused=None):
    return """program drv
  use m, only: dagrt_state_type, initialize, run, shutdown
  implicit none
  type(dagrt_state_type), target :: st
  type(dagrt_state_type), pointer :: sp
  integer :: k, n
  character(len=32) :: arg
  real*8 :: dtv
  real*8, dimension(3) :: y0
  sp => st
  y0(1) = 1.0d0
  y0(2) = -2.0d0
  y0(3) = 0.5d0
  call initialize(dagrt_state=sp, state_y=y0, dagrt_t=0.0d0, dagrt_dt=1.0d0)
  n = command_argument_count()
  do k = 1, n
    call get_command_argument(k, arg)
    read(arg, *) dtv
    st%dagrt_dt = dtv
    call run(dagrt_state=sp)
  end do
  call shutdown(dagrt_state=sp)
  write(*,'(A)') 'DONE'
end program
"""


def generate(names):
    import dagrt.codegen.fortran as f
    dag = prog.build_dag(describe(names), "init")
    cg = f.CodeGenerator("m", function_registry=c03.registry(),
                         user_type_map={"y": f.ArrayType((3,), f.BuiltinType("real*8"))})
    return cg(dag)


# ---- second family: two user types with different pointer structure -------------------------------

PREAMBLE2 = """
type cell
  integer :: tag
  real*8, pointer, dimension(:) :: v
end type
"""

ATOMS2 = {
    "c-euler": [A("kc", "<func>fc(<t>, <state>c)"), A("<state>c", "<state>c + 0.5*kc")],
    "w-euler": [A("kw", "<func>fw(<t>, <state>w)"), A("<state>w", "<state>w + 0.5*kw")],
    "c-tmp": [A("cn", "<state>c * 2"), A("<state>c", "cn")],
    "w-tmp": [A("wn", "<state>w * 2"), A("<state>w", "wn")],
    "if{c-euler}": guarded([A("kc", "<func>fc(<t>, <state>c)"), A("<state>c", "<state>c + 0.5*kc")]),
    "pc=c": [A("<p>pc", "<state>c")],
    "fail-if": [["IF", G, [["FAIL"]], None]],
    "yield c": [["Y", "<state>c", "cstate", "<t>", "final"]],
}

_REG2 = []


def registry2():
    if not _REG2:
        import dagrt.codegen.fortran as f
        from dagrt.function_registry import base_function_registry, register_ode_rhs
        freg = register_ode_rhs(base_function_registry, "cstate", identifier="<func>fc", input_names=("c",))
        freg = freg.register_codegen("<func>fc", "fortran", f.CallCode("""
            ${result}%tag = ${c}%tag
            ${result}%v = -${c}%v
            """))
        freg = register_ode_rhs(freg, "wstate", identifier="<func>fw", input_names=("w",))
        freg = freg.register_codegen("<func>fw", "fortran", f.CallCode("""
            ${result} = -${w}
            """))
        _REG2.append(freg)
    return _REG2[0]


def generate2(names):
    import dagrt.codegen.fortran as f
    body = []
    for nm in names:
        body.extend(ATOMS2[nm])
    init = [A("<state>c", "<func>fc(<t>, <state>c)"), A("<state>w", "<func>fw(<t>, <state>w)")]
    dag = prog.build_dag([("init", init, "main"), ("main", body, "main")], "init")
    utm = {"cstate": f.StructureType("cell", (("tag", f.BuiltinType("integer")),
                                               ("v", f.PointerType(f.ArrayType((4,), f.BuiltinType("real*8")))))),
           "wstate": f.ArrayType((5,), f.BuiltinType("real*8"))}
    cg = f.CodeGenerator("m", function_registry=registry2(), user_type_map=utm, module_preamble=PREAMBLE2)
    return cg(dag)


def driver2():
    return """program drv
  use m, only: dagrt_state_type, cell, initialize, run, shutdown
  implicit none
  type(dagrt_state_type), target :: st
  type(dagrt_state_type), pointer :: sp
  type(cell) :: c0
  real*8, dimension(5) :: v0
  integer :: k, n
  character(len=32) :: arg
  real*8 :: dtv
  sp => st
  allocate(c0%v(4))
  c0%tag = 7
  c0%v = 1
  v0 = 2
  call initialize(dagrt_state=sp, state_c=c0, state_w=v0, dagrt_t=0.0d0, dagrt_dt=1.0d0)
  n = command_argument_count()
  do k = 1, n
    call get_command_argument(k, arg)
    read(arg, *) dtv
    st%dagrt_dt = dtv
    call run(dagrt_state=sp)
  end do
  call shutdown(dagrt_state=sp)
  deallocate(c0%v)
  write(*,'(A)') 'DONE'
end program
"""


# ---- third family: pointer components one level down (structure holding a fixed-size array of structures) -------

PREAMBLE3 = """
type cell
  real*8, dimension(:), pointer :: d
end type

type mesh
  real*8 weight
  type(cell), dimension(2) :: cells
end type
"""

ATOMS3 = {
    "m-euler": [A("km", "<func>fm(<t>, <state>m)"), A("<state>m", "<state>m + 0.5*km")],
    "m-tmp": [A("mn", "<state>m * 2"), A("<state>m", "mn")],
    "if{m-euler}": guarded([A("km", "<func>fm(<t>, <state>m)"), A("<state>m", "<state>m + 0.5*km")]),
    "pm=m": [A("<p>pm", "<state>m")],
    "fail-if": [["IF", G, [["FAIL"]], None]],
    "yield m": [["Y", "<state>m", "mstate", "<t>", "final"]],
}

_REG3 = []


def registry3():
    if not _REG3:
        import dagrt.codegen.fortran as f
        from dagrt.function_registry import base_function_registry, register_ode_rhs
        freg = register_ode_rhs(base_function_registry, "mstate", identifier="<func>fm", input_names=("m",))
        freg = freg.register_codegen("<func>fm", "fortran", f.CallCode("""
            <% i = declare_new("integer", "i") %>
            ${result}%weight = -${m}%weight
            do ${i} = 1, 2
              ${result}%cells(${i})%d = -${m}%cells(${i})%d
            end do
            """))
        _REG3.append(freg)
    return _REG3[0]


def generate3(names):
    import dagrt.codegen.fortran as f
    body = []
    for nm in names:
        body.extend(ATOMS3[nm])
    init = [A("<state>m", "<func>fm(<t>, <state>m)")]
    dag = prog.build_dag([("init", init, "main"), ("main", body, "main")], "init")
    cell = f.StructureType("cell", (("d", f.PointerType(f.ArrayType((3,), f.BuiltinType("real*8")))),))
    mesh = f.StructureType("mesh", (("weight", f.BuiltinType("real*8")), ("cells", f.ArrayType((2,), cell))))
    cg = f.CodeGenerator("m", function_registry=registry3(), user_type_map={"mstate": mesh},
                         module_preamble=PREAMBLE3)
    return cg(dag)


def driver3():
    return """program drv
  use m, only: dagrt_state_type, cell, mesh, initialize, run, shutdown
  implicit none
  type(dagrt_state_type), target :: st
  type(dagrt_state_type), pointer :: sp
  type(mesh) :: m0
  integer :: k, n
  character(len=32) :: arg
  real*8 :: dtv
  sp => st
  m0%weight = 1
  do k = 1, 2
    allocate(m0%cells(k)%d(3))
    m0%cells(k)%d = k
  end do
  call initialize(dagrt_state=sp, state_m=m0, dagrt_t=0.0d0, dagrt_dt=1.0d0)
  n = command_argument_count()
  do k = 1, n
    call get_command_argument(k, arg)
    read(arg, *) dtv
    st%dagrt_dt = dtv
    call run(dagrt_state=sp)
  end do
  call shutdown(dagrt_state=sp)
  do k = 1, 2
    deallocate(m0%cells(k)%d)
  end do
  write(*,'(A)') 'DONE'
end program
"""


def classify(rc, out, err):
    """returns (sub, detail) or None"""
    if "LeakSanitizer: detected memory leaks" in err:
        m = re.search(r"SUMMARY: AddressSanitizer: (\d+) byte\(s\) leaked in (\d+) allocation", err)
        return ("lsan", "LeakSanitizer: %s\n%s" % (m.group(0) if m else "", err[:700]))
    if "AddressSanitizer" in err:
        m = re.search(r"ERROR: AddressSanitizer: ([\w-]+)", err)
        kind = m.group(1) if m else "report"
        return ("asan(%s)" % kind, err[:900])
    if "leaked reference" in err:
        return ("leaked-reference", err[-400:])
    if "Fortran runtime error" in err:
        return ("fcheck", err[-500:])
    if rc is None:
        return ("runtime-signal", "timeout")
    if rc != 0 or "DONE" not in out:
        return ("runtime-signal", "exit status %s, stderr %r" % (rc, err[-400:]))
    if err.strip():
        return ("stderr", err[-400:])
    return None


ENV = {"ASAN_OPTIONS": "detect_leaks=1:abort_on_error=0:halt_on_error=1:allocator_may_return_null=1",
       "LSAN_OPTIONS": "exitcode=23"}


def check_program(names, lab, n, acc=None):
    """returns list of (sub, detail, history) (first per sub-oracle)"""
    two = bool(names) and names[0] in ATOMS2 and names[0] not in ATOMS or (bool(names) and names[0] == "@2")
    three = bool(names) and names[0] == "@3"
    if names and names[0] in ("@2", "@3"):
        two = names[0] == "@2"
        names = names[1:]
    try:
        with kernel.time_limit(120):
            code = generate3(names) if three else generate2(names) if two else generate(names)
    except kernel.Budget:
        return [("budget", "generation did not terminate", ())]
    except Exception as ex:
        return [("generate-raises(%s)" % type(ex).__name__, "%s: %s" % (type(ex).__name__, str(ex)[:300]), ())]
    ok, err = lab.build(code, driver3() if three else driver2() if two else driver(), flags=["-fsanitize=address", "-fcheck=pointer"])
    if not ok:
        return [("compile-fails", err[-600:], ())]
    fails = []
    import subprocess
    for h in histories(n):
        try:
            r = subprocess.run([os.path.join(lab.dir, "prog")] + [repr(x) for x in h], cwd=lab.dir,
                               capture_output=True, text=True, env=dict(os.environ, **ENV), timeout=60)
            rc, out, errtxt = r.returncode, r.stdout, r.stderr
        except subprocess.TimeoutExpired:
            rc, out, errtxt = None, "", "TIMEOUT"
        if acc is not None:
            acc.evaluations += 1
        c = classify(rc, out, errtxt)
        if c is None:
            if acc is not None:
                if 1.0 in h:
                    acc.nontrivial += 1
                acc.outcome("%s|%s" % (names, h))
            continue
        if not any(f[0] == c[0] for f in fails):
            fails.append((c[0], c[1], h))
    return fails


def bodies(tier):
    names = list(ATOMS)
    yield ()
    n2 = list(ATOMS2)
    yield ("@2",)
    for a in n2:
        yield ("@2", a)
    for a in n2:
        for b in n2:
            yield ("@2", a, b)
    n3 = list(ATOMS3)
    yield ("@3",)
    for a in n3:
        yield ("@3", a)
    for a in (n3 if tier == "thorough" else ["m-euler", "if{m-euler}", "pm=m", "fail-if"]):
        for b in n3:
            yield ("@3", a, b)
    for a in names:
        yield (a,)
    second = names if tier == "thorough" else list(CONTROL) + ["euler", "yield w", "w=f(y)", "pw=y", "if{euler}"]
    for a in names:
        for b in second:
            yield (a, b)
    for a in CONTROL:
        for b in BASE:
            if (a, b) not in [(x, y) for x in names for y in second]:
                yield (a, b)
    if tier == "thorough":
        core = ["euler", "w=f(y)", "yield w", "fail-if", "switch-if", "if{w=2y;y=w}", "pw=y", "overwrite"]
        for t in itertools.product(core, repeat=3):
            yield t


def bounds(tier):
    return {"atoms": len(ATOMS), "two_type_family_atoms": len(ATOMS2),
            "nested_structure_family_atoms": "%d (state of a structure type holding an array of structures with pointer "
            "components)" % len(ATOMS3), "k": 2 if tier == "quick" else 3, "history_length_max": 3 if tier == "quick" else 4,
            "dt_values_per_call": DTS, "sanitizers": "-fsanitize=address (ASan+LSan), -fcheck=pointer"}


def shards(tier, seed):
    m = 64 if tier == "quick" else 256
    return [{"tier": tier, "mod": m, "rem": r} for r in range(m)]


def shrink(names, sub, lab, n):
    names = list(names)
    changed = True
    while changed and len(names) > 1:
        changed = False
        for i in range(1 if names[0] in ("@2", "@3") else 0, len(names)):
            c = names[:i] + names[i + 1:]
            r = check_program(c, lab, n)
            if any(f[0] == sub for f in r):
                names = c
                changed = True
                break
    return names


def record(names, sub, lab, n):
    s = shrink(names, sub, lab, n)
    r2 = check_program(s, lab, n)
    d = [f for f in r2 if f[0] == sub]
    hist = d[0][2] if d else ()
    outcome = "".join("T" if x == 1.0 else "F" for x in hist)
    return {"sub": sub, "sig": "C12/%s:%s" % (sub, "; ".join(s)), "witness": {"body": list(s)},
            "detail": "main body: %s\nshortest failing history (dt per run call): %s [guards %s]\n%s" % (
                "; ".join(s), list(hist), outcome, d[0][1][:900] if d else "")}


def run_shard(desc, acc):
    n = 3 if desc["tier"] == "quick" else 4
    with fortranlab.Lab("c12") as lab:
        for i, names in enumerate(bodies(desc["tier"])):
            if i % desc["mod"] != desc["rem"]:
                continue
            if acc.out_of_time():
                acc.cap("time cap in shard %r" % desc)
                return
            acc.count("programs")
            r = check_program(names, lab, n, acc)
            for sub, detail, h in r:
                if acc.want_violation(sub, names[-1] if names else ""):
                    v = record(names, sub, lab, n)
                    acc.violation(v["sub"], v["sig"], v["witness"], v["detail"])
                else:
                    acc.count_violation(sub)
            if not r and i % 40 == 0:
                acc.sample({"main_body": list(names), "histories": [list(h) for h in histories(n)][:6]})


def replay(witness):
    with fortranlab.Lab("c12r") as lab:
        names = witness["body"]
        r = check_program(names, lab, 3)
        return [record(names, sub, lab, 3) for sub, _, _ in r]
