"""C20 -- line wrapping of generated code changes layout only.

All token sequences of length <= L over an alphabet of identifiers, operators, call heads/tails,
quoted strings (one blank, two consecutive blanks, embedded other quote, escaped quote; free-standing
and glued to an identifier) and an over-long token, at every level in {0,1,3} and width in
{12,20,40,80}, are wrapped by the real Python and Fortran wrap_line; the output is re-tokenised with
the target language's rules and compared with the input, every produced line is checked for
unterminated strings and for the width, Python results are parsed (tokenize / ast) and a corpus of
valid Fortran statements is compiled with gfortran -fsyntax-only after wrapping.
"""

import ast
import io
import itertools
import json
import os
import subprocess
import tempfile
import tokenize

from mc import kernel

ID = "C20"
LEVEL = "exploration"
TECHNIQUE = ("bounded exhaustive enumeration of token sequences x indentation levels x widths on the real wrap_line "
             "(Python and Fortran padding); re-tokenisation oracle, Python tokenize/ast, gfortran -fsyntax-only on a "
             "statement corpus")
RULE = ("lines are ' '.join(tokens) for every token sequence of length <= L over the 18-token alphabet, crossed with 3 "
        "levels x 4 widths x 2 targets; plus a corpus of valid statements at every width 10..90; non-trivial = calls "
        "whose output has more than one line; distinct_outcomes = distinct wrapped layouts")
ASSUMPTIONS = ["the tokenizers below implement the string-literal rules of each target (Python: backslash escapes; "
               "Fortran: doubled quotes); they are cross-checked against tokenize / gfortran on the corpora"]
LEVEL_TEXT = ("Every (line, level, width) in the bounded space is wrapped by the real code for both targets and decided by "
              "re-tokenisation, per-line string termination, width, and (Python) AST equality; Fortran continuation "
              "rules are validated by the compiler on wrapped valid statements.")
LEVEL_NOTE = "Trusted: the two 25-line tokenizers, Python's tokenize/ast, gfortran -fsyntax-only."

LONG = "x" * 90
TOKENS = ["a", "abcdefghijklmnopqrstuvwxyz_012", "=", "+", "f(x,", "y)", "'a b'", "'a  b'", "'a\"b c'", "QESC",
          "f('a b')", "k='a  b'", '"a b"', 'g("a  b",', "(1,", "2)", LONG, "QBS"]
LEVELS = [0, 1, 3]
WIDTHS = [12, 20, 40, 80]


def concrete(tok, target):
    if tok == "QESC":
        return "'a\\'b c'" if target == "python" else "'a''b c'"
    if tok == "QBS":
        # a literal whose last character is a backslash: escaped in Python, ordinary in Fortran
        return "'d\\\\'" if target == "python" else "'d\\'"
    return tok


def lex(line, target):
    """tokens of one logical line; returns (tokens, unterminated_string?)"""
    out = []
    i = 0
    n = len(line)
    while i < n:
        ch = line[i]
        if ch.isspace():
            i += 1
            continue
        if ch in "'\"":
            j = i + 1
            closed = False
            while j < n:
                if target == "python" and line[j] == "\\":
                    j += 2
                    continue
                if line[j] == ch:
                    if target == "fortran" and j + 1 < n and line[j + 1] == ch:
                        j += 2
                        continue
                    closed = True
                    break
                j += 1
            if not closed:
                out.append(line[i:])
                return out, True
            out.append(line[i:j + 1])
            i = j + 1
            continue
        if ch.isalnum() or ch == "_":
            j = i
            while j < n and (line[j].isalnum() or line[j] in "_."):
                j += 1
            out.append(line[i:j])
            i = j
            continue
        out.append(ch)
        i += 1
    return out, False


def join_wrapped(lines, target):
    marker = "\\" if target == "python" else "&"
    parts = []
    for k, ln in enumerate(lines):
        if k < len(lines) - 1:
            if not ln.endswith(marker):
                return None, "line %d of %d does not end with the continuation marker: %r" % (k + 1, len(lines), ln)
            parts.append(ln[:-1])
        else:
            parts.append(ln)
    return " ".join(parts), None


def py_tokens(src):
    toks = []
    for t in tokenize.generate_tokens(io.StringIO(src).readline):
        if t.type in (tokenize.NL, tokenize.NEWLINE, tokenize.INDENT, tokenize.DEDENT, tokenize.ENDMARKER,
                      tokenize.COMMENT):
            continue
        toks.append((t.type, t.string))
    return toks


def wrap(target, line, level, width, indentation="    "):
    if target == "python":
        from dagrt.codegen.python import wrap_line
    else:
        from dagrt.codegen.fortran import wrap_line
    return wrap_line(line, level, width=width, indentation=indentation)


def check(target, line, level, width, indentation="    "):
    """returns ((sub, detail) or None, lines)"""
    try:
        with kernel.time_limit(120):
            lines = wrap(target, line, level, width, indentation)
    except kernel.Budget:
        return ("budget", "wrap_line did not return"), None
    except Exception as ex:
        return ("exception(%s)" % type(ex).__name__, "%s: %s" % (type(ex).__name__, ex)), None
    ind = len(level * indentation)
    want, _ = lex(line, target)
    joined, err = join_wrapped(lines, target)
    if err:
        return ("continuation", err), lines
    got, _ = lex(joined, target)
    if got != want:
        return ("tokens(%s)" % target, "tokens after wrapping %s differ from input tokens %s; output lines %s" % (
            got, want, lines)), lines
    for ln in lines:
        body = ln[:-1] if ln is not lines[-1] else ln
        toks, open_string = lex(body, target)
        if open_string:
            return ("string-split", "a quoted string is split across lines: %s" % lines), lines
        if len(toks) > 1 and len(shlex_words(body, target)) > 1 and ind + len(ln) > width:
            return ("too-wide", "line %r holds several tokens and is %d wide at indentation %d (width %d)" % (
                ln, ind + len(ln), ind, width)), lines
    if target == "python":
        try:
            orig_t = py_tokens(line + "\n")
        except (tokenize.TokenError, SyntaxError, IndentationError):
            orig_t = None
        if orig_t is not None:
            src = "\n".join(lines) + "\n"
            try:
                new_t = py_tokens(src)
            except (tokenize.TokenError, SyntaxError, IndentationError) as ex:
                return ("tokens(python)", "wrapped text no longer tokenizes (%s): %r" % (ex, src)), lines
            if new_t != orig_t:
                return ("tokens(python)", "python tokenize differs: %s vs %s" % (new_t[:12], orig_t[:12])), lines
            try:
                a0 = ast.dump(ast.parse(line))
            except SyntaxError:
                a0 = None
            if a0 is not None:
                try:
                    a1 = ast.dump(ast.parse(src))
                except SyntaxError as ex:
                    return ("ast-differs", "wrapped text does not parse (%s): %r" % (ex, src)), lines
                if a0 != a1:
                    return ("ast-differs", "syntax tree changed: %r -> %r" % (line, src)), lines
    return None, lines


def shlex_words(body, target="fortran"):
    """whitespace-separated words outside quoted strings (a 'token' in the wrapper's sense)"""
    words, cur, q = [], "", None
    i = 0
    while i < len(body):
        ch = body[i]
        if q:
            cur += ch
            if target == "python" and ch == "\\" and i + 1 < len(body):
                i += 1
                cur += body[i]
            elif ch == q:
                q = None
        elif ch in "'\"":
            q = ch
            cur += ch
        elif ch.isspace():
            if cur:
                words.append(cur)
            cur = ""
        else:
            cur += ch
        i += 1
    if cur:
        words.append(cur)
    return words


PY_CORPUS = [
    "x = g('u  v') + abcdefghijklmnopqrstuvwxyz_012 * 2",
    "yield self.StateComputed(t=self.t + self.dt, time_id='final  id', component_id=\"y z\", state_component=self.global_state_y)",
    "self.global_p_r[local_i] = self._functions.f(self.global_p_a, y='a b c', z=\"d  e\") if self.global_p_b > 1 else -1",
    "raise self.StepError('HarnessError1', 'boom  bang it\\'s over')",
    "localcond_ = not (self.global_p_a > 1 and self.global_p_b <= 2) or self.global_state_y == 0",
    "s = 'abc' 'def  ghi' + \"jkl 'mno'  pqr\"",
]
F_CORPUS = [
    "s = 'a  b' // \"c d\" // 'e''f  g' // t",
    "x = y + z*2.0d0 + abcdefghijklmnopqrstuvwxyz_012 / (y - 1.0d0)",
    "write(*,*) 'failed to  allocate', x, \"and  more\", y",
    "if (x .gt. 1.0d0 .and. y .le. 2.0d0) x = max(y, z) + min(x, 3.0d0)",
    "call sub(x, y, 'a b  c', z)",
]
F_WRAPPER = """program p
 implicit none
 character(len=80) :: s, t
 real*8 :: x, y, z, abcdefghijklmnopqrstuvwxyz_012
 t = 'q'
 x = 1
 y = 2
 z = 3
 abcdefghijklmnopqrstuvwxyz_012 = 4
%s
 contains
 subroutine sub(a, b, c, d)
  real*8 :: a, b, d
  character(len=*) :: c
 end subroutine
end program
"""


def gfortran_ok(stmt_lines):
    with tempfile.TemporaryDirectory(dir=os.environ.get("TMPDIR", "/tmp")) as d:
        p = os.path.join(d, "w.f90")
        with open(p, "w") as f:
            f.write(F_WRAPPER % "\n".join(" " + ln for ln in stmt_lines))
        r = subprocess.run(["gfortran", "-fsyntax-only", "-ffree-line-length-none", p], capture_output=True, text=True)
        return r.returncode == 0, r.stderr[-600:]


def bounds(tier):
    return {"L": 4 if tier == "quick" else 5, "alphabet": len(TOKENS), "levels": LEVELS, "widths": WIDTHS,
            "targets": ["python", "fortran"],
            "corpus": "%d python + %d fortran valid statements x widths 10..90 x levels {0,1,3}; gfortran on %s" % (
                len(PY_CORPUS), len(F_CORPUS), "every 8th width" if tier == "quick" else "every width")}


def shards(tier, seed):
    L = 4 if tier == "quick" else 5
    out = [{"part": "corpus", "tier": tier, "target": "python"}, {"part": "corpus", "tier": tier, "target": "fortran"}]
    for first in range(len(TOKENS)):
        for target in ("python", "fortran"):
            out.append({"part": "seq", "L": L, "first": first, "target": target})
    return out


def sig_of(sub, target, toks, broke):
    return "C20/%s:%s [%s]%s" % (sub, target, " ".join(t if t != LONG else "LONG" for t in toks),
                                 " wrapped" if broke else " unwrapped")


def shrink_seq(target, toks, level, width, sub):
    toks = list(toks)
    changed = True
    while changed:
        changed = False
        for i in range(len(toks)):
            c = toks[:i] + toks[i + 1:]
            if not c:
                continue
            r, _ = check(target, " ".join(concrete(t, target) for t in c), level, width)
            if r is not None and r[0] == sub:
                toks = c
                changed = True
                break
    return toks


def run_shard(desc, acc):
    if desc["part"] == "corpus":
        return run_corpus(desc, acc)
    target = desc["target"]
    L = desc["L"]
    first = TOKENS[desc["first"]]
    for n in range(1, L + 1):
        for rest in itertools.product(TOKENS, repeat=n - 1):
            toks = (first,) + rest
            line = " ".join(concrete(t, target) for t in toks)
            for level in LEVELS:
                for width in WIDTHS:
                    acc.evaluations += 1
                    r, lines = check(target, line, level, width)
                    if r is not None:
                        sub = r[0]
                        if acc.want_violation(sub):
                            s = shrink_seq(target, toks, level, width, sub)
                            sl = " ".join(concrete(t, target) for t in s)
                            r2, l2 = check(target, sl, level, width)
                            acc.violation(sub, sig_of(sub, target, s, bool(l2) and len(l2) > 1),
                                          {"target": target, "line": sl, "level": level, "width": width,
                                           "tokens": ["LONG" if t == LONG else t for t in s]},
                                          "%s\ninput line %r level %d width %d" % ((r2 or r)[1], sl, level, width))
                        else:
                            acc.count_violation(sub)
                        continue
                    if len(lines) > 1:
                        acc.nontrivial += 1
                    acc.outcome(json.dumps(lines))
                    if acc.evaluations % 40000 == 1 and len(lines) > 1:
                        acc.sample({"target": target, "line": line, "level": level, "width": width, "wrapped": lines})


def run_corpus(desc, acc):
    target = desc["target"]
    corpus = PY_CORPUS if target == "python" else F_CORPUS
    seen_layouts = set()
    for ci, line in enumerate(corpus):
        for level in LEVELS:
            for width in range(10, 91):
                acc.evaluations += 1
                ind = " " if target == "fortran" else "    "
                r, lines = check(target, line, level, width, indentation=ind)
                if r is None and target == "fortran" and (desc["tier"] == "thorough" or width % 8 == 0):
                    key = json.dumps(lines)
                    if key not in seen_layouts:
                        seen_layouts.add(key)
                        ok, err = gfortran_ok(lines)
                        acc.count("gfortran_layouts_compiled")
                        if not ok:
                            r = ("compiler-rejects", "gfortran rejects the wrapped statement %s: %s" % (lines, err))
                if r is not None:
                    sub = r[0]
                    acc.violation(sub, "C20/%s:%s corpus[%d]" % (sub, target, ci),
                                  {"target": target, "line": line, "level": level, "width": width, "corpus": True,
                                   "indentation": ind},
                                  "%s\ninput line %r level %d width %d" % (r[1], line, level, width))
                    break
                if len(lines) > 1:
                    acc.nontrivial += 1
                acc.outcome(json.dumps(lines))
            else:
                continue
            break


def replay(witness):
    w = witness
    ind = w.get("indentation", "    ")
    r, lines = check(w["target"], w["line"], w["level"], w["width"], indentation=ind)
    if r is None and w.get("corpus") and w["target"] == "fortran":
        ok, err = gfortran_ok(lines)
        if not ok:
            r = ("compiler-rejects", "gfortran rejects the wrapped statement %s: %s" % (lines, err))
    if r is None:
        return []
    if w.get("corpus"):
        corpus = PY_CORPUS if w["target"] == "python" else F_CORPUS
        return [{"sub": r[0], "sig": "C20/%s:%s corpus[%d]" % (r[0], w["target"], corpus.index(w["line"])),
                 "witness": w, "detail": r[1]}]
    toks = [LONG if t == "LONG" else t for t in w["tokens"]]
    s = shrink_seq(w["target"], toks, w["level"], w["width"], r[0])
    sl = " ".join(concrete(t, w["target"]) for t in s)
    r2, l2 = check(w["target"], sl, w["level"], w["width"])
    return [{"sub": r[0], "sig": sig_of(r[0], w["target"], s, bool(l2) and len(l2) > 1),
             "witness": dict(w, line=sl, tokens=["LONG" if t == LONG else t for t in s]), "detail": (r2 or r)[1]}]
