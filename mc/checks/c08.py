"""C08 -- declared read/write sets cover what a statement really touches.

Every statement kind with every expression slot (guard, rhs, left subscript, loop start/stop,
positional and keyword arguments, yielded value, time) filled from a menu of expression forms in
which each slot mentions variables that occur nowhere else in the statement is executed by the
real interpreter on a recording variable store, in every state that flips one variable to 0
(which flips every guard / conditional expression / short-circuit).  Dynamic reads and writes are
compared with get_read_variables()/get_written_variables(); the sets must be unchanged by
map_expressions(identity).
"""

import itertools
import json

import numpy as np

from mc import kernel, prog

ID = "C08"
LEVEL = "exploration"
TECHNIQUE = ("exhaustive enumeration of single statements (kind x slot x expression form) x execution states; dynamic "
             "access recording on the interpreter's variable store vs declared read/write sets")
RULE = ("statements are enumerated as kind x (expression form per slot); all one-, two- and three-slot variations in quick (other "
        "slots at the simplest form), all four-slot combinations in thorough; each is executed in 1 + #variables states; "
        "non-trivial = statements whose dynamic read set differs between at least two states (a guard, conditional "
        "expression or short-circuit really flipped) or that have a loop/subscript; distinct_outcomes = distinct "
        "(declared reads, declared writes, union of dynamic reads, union of dynamic writes)")
ASSUMPTIONS = ["loop counters are exempt (as the property states)",
               "function symbols called (not passed as values) are not variables"]
LEVEL_TEXT = ("The statement space (all kinds, every slot, 12 expression forms incl. subscripts, calls with keywords, "
              "conditional expressions, short-circuit logic) is covered completely three slots at a time (quick) / four slots "
              "at a time (thorough), each in every single-variable-flipped state, on the real exec_* methods.")
LEVEL_NOTE = "Trusted: the recording dict subclass (30 lines). AssignImplicit is not executable and is left out."


class RecDict(dict):
    def __init__(self, *a, **k):
        super().__init__(*a, **k)
        self.reads = set()
        self.writes = set()
        self.outside_reads = set()     # names read before anything wrote them during this execution

    def sibling(self):
        """another mapping of the same interpreter (e.g. a scratch namespace) reporting to the same log"""
        r = RecDict()
        r.reads, r.writes, r.outside_reads = self.reads, self.writes, self.outside_reads
        self.siblings = getattr(self, "siblings", []) + [r]
        return r

    def __getitem__(self, k):
        self.reads.add(k)
        if k not in self.writes:
            self.outside_reads.add(k)
        return super().__getitem__(k)

    def get(self, k, d=None):
        self.reads.add(k)
        if k not in self.writes:
            self.outside_reads.add(k)
        return super().get(k, d)

    def __setitem__(self, k, v):
        self.writes.add(k)
        super().__setitem__(k, v)

    def __delitem__(self, k):
        self.writes.add(k)
        super().__delitem__(k)

    def pop(self, k, *d):
        self.writes.add(k)
        return super().pop(k, *d)

    def setdefault(self, k, d=None):
        self.writes.add(k)
        return super().setdefault(k, d)

    def update(self, *a, **k):
        for kk in dict(*a, **k):
            self.writes.add(kk)
        super().update(*a, **k)


N_FORMS = 12


def form(f, p):
    """(expression, scalar variable names, array variable names) for slot prefix p"""
    import pymbolic.primitives as P
    v = [P.Variable("%s%d" % (p, i)) for i in range(3)]
    fn = P.Variable("<func>f")
    if f == 0:
        return v[0], [v[0].name], []
    if f == 1:
        return P.Sum((v[0], 1)), [v[0].name], []
    if f == 2:
        return P.Subscript(v[0], v[1]), [v[1].name], [v[0].name]
    if f == 3:
        return P.Call(fn, (v[0],)), [v[0].name], []
    if f == 4:
        return P.CallWithKwargs(fn, (v[0],), {"k": v[1]}), [v[0].name, v[1].name], []
    if f == 5:
        return P.If(P.Comparison(v[0], ">", 0), v[1], v[2]), [x.name for x in v], []
    if f == 6:
        return P.Sum((P.Product((v[0], v[1])), P.Product((-1, v[2])))), [x.name for x in v], []
    if f == 7:
        return P.Min((v[0], v[1])), [v[0].name, v[1].name], []
    if f == 8:
        return P.If(P.LogicalAnd((P.Comparison(v[0], ">", 0), P.Comparison(v[1], ">", 0))), 1, 0), \
            [v[0].name, v[1].name], []
    if f == 9:
        return P.Call(fn, (P.Call(fn, (v[0],)),)), [v[0].name], []
    if f == 10:
        return P.Subscript(v[0], (P.Sum((v[1], v[2])),)), [v[1].name, v[2].name], [v[0].name]
    if f == 11:
        return P.Sum((P.Lookup(v[0], "real"), P.Lookup(v[1], "imag"))), [v[0].name, v[1].name], []
    raise ValueError(f)


def guard_form(f, p):
    import pymbolic.primitives as P
    if f == "T":
        return True, [], []
    e, sc, ar = form(f, p)
    return P.Comparison(e, ">", 0), sc, ar


# statement templates: list of slots (name, kind) and a constructor
TEMPLATES = {
    "Assign": ["guard", "rhs"],
    "AssignSub": ["guard", "rhs", "lsub"],
    "AssignLoop1": ["guard", "rhs", "lsub", "l0start", "l0stop"],
    "AssignLoop2": ["guard", "rhs", "l0start", "l0stop", "l1start", "l1stop"],
    "AssignLoop2b": ["guard", "rhs", "l1stop"],      # outer bound reads an OUTSIDE variable named like the inner counter
    "Call0": ["guard", "arg0"],
    "Call1": ["guard", "arg0", "arg1", "kwA"],
    "Call2": ["guard", "arg0", "kwA", "kwB"],
    "Yield": ["guard", "yexpr", "ytime"],
    "Fail": ["guard"],
    "Raise": ["guard"],
    "Switch": ["guard"],
}


class _Err(Exception):
    pass


def make_statement(tname, forms):
    """forms: {slot: form id}; returns (stmt, scalar vars, array vars, loop counters)"""
    import pymbolic.primitives as P
    from dagrt.language import Assign, AssignFunctionCall, FailStep, Raise, SwitchPhase, YieldState
    sc, ar = [], []
    ex = {}
    for slot in TEMPLATES[tname]:
        if slot == "guard":
            e, s, a = guard_form(forms[slot], "g_")
        else:
            e, s, a = form(forms[slot], slot + "_")
        ex[slot] = e
        sc += s
        ar += a
    cond = ex["guard"]
    cnt = []
    if tname == "Assign":
        st = Assign(id="s", assignee="x", assignee_subscript=(), expression=ex["rhs"], condition=cond)
    elif tname == "AssignSub":
        st = Assign(id="s", assignee="xa", assignee_subscript=(ex["lsub"],), expression=ex["rhs"], condition=cond)
        ar.append("xa")
    elif tname == "AssignLoop1":
        st = Assign(id="s", assignee="xa", assignee_subscript=(P.Sum((ex["lsub"], P.Variable("i"))),),
                    expression=P.Sum((ex["rhs"], P.Variable("i"))), condition=cond,
                    loops=[("i", ex["l0start"], P.Sum((ex["l0stop"], 2)))])
        ar.append("xa")
        cnt = ["i"]
    elif tname == "AssignLoop2":
        st = Assign(id="s", assignee="xa", assignee_subscript=(P.Variable("j"),),
                    expression=P.Sum((ex["rhs"], P.Variable("i"))), condition=cond,
                    loops=[("i", ex["l0start"], P.Sum((ex["l0stop"], 2))),
                           ("j", ex["l1start"], P.Sum((ex["l1stop"], 1)))])
        ar.append("xa")
        cnt = ["i", "j"]
    elif tname == "AssignLoop2b":
        st = Assign(id="s", assignee="xa", assignee_subscript=(P.Variable("i"),),
                    expression=ex["rhs"], condition=cond,
                    loops=[("i", 0, P.Sum((P.Variable("j"), 1))), ("j", 0, P.Sum((ex["l1stop"], 1)))])
        ar.append("xa")
        sc.append("j")
        cnt = ["i", "j"]
    elif tname == "Call0":
        st = AssignFunctionCall(id="s", assignees=(), function_id="<func>f", parameters=(ex["arg0"],),
                                condition=cond)
    elif tname == "Call1":
        st = AssignFunctionCall(id="s", assignees=("x",), function_id="<func>f",
                                parameters=(ex["arg0"], ex["arg1"]), kw_parameters={"k": ex["kwA"]},
                                condition=cond)
    elif tname == "Call2":
        st = AssignFunctionCall(id="s", assignees=("x", "y"), function_id="<func>g",
                                parameters=(ex["arg0"],), kw_parameters={"k": ex["kwA"], "m": ex["kwB"]},
                                condition=cond)
    elif tname == "Yield":
        st = YieldState(id="s", time_id="tid", time=ex["ytime"], component_id="c", expression=ex["yexpr"],
                        condition=cond)
    elif tname == "Fail":
        st = FailStep(id="s", condition=cond)
    elif tname == "Raise":
        st = Raise(_Err, "m", id="s", condition=cond)
    elif tname == "Switch":
        st = SwitchPhase("other", id="s", condition=cond)
    else:
        raise ValueError(tname)
    return st, sc, ar, cnt


def f_f(*a, **k):
    return a[0]


def f_g(*a, **k):
    return a[0], a[0]


FUNCS = {"<func>f": f_f, "<func>g": f_g}


def states_for(sc, ar):
    base = {v: 1 for v in sc}
    for a in ar:
        base[a] = None
    yield "base", base
    for v in sc:
        s = dict(base)
        s[v] = 0
        yield v + "=0", s


def execute(stmt, state):
    from dagrt.exec_numpy import NumpyInterpreter
    from dagrt.language import DAGCode, ExecutionPhase
    dag = DAGCode({"p": ExecutionPhase("p", "p", [stmt])}, "p")
    it = NumpyInterpreter(dag, FUNCS)
    rec = RecDict()
    prog.install_store(it, rec, rec.sibling)
    # the execution state is made visible wherever the interpreter may look a variable up (its context and any
    # mapping chained with it), without going through the recording methods
    for m in [rec] + getattr(rec, "siblings", []):
        for k, v in state.items():
            dict.__setitem__(m, k, np.array([1, 1, 1, 1, 1, 1]) if v is None else v)
        # live variables that share the names of the called functions: calling a function must not read them
        dict.__setitem__(m, "<func>f", f_f)
        dict.__setitem__(m, "<func>g", f_g)
    err = None
    try:
        if it.evaluate_condition(stmt):
            getattr(it, stmt.exec_method)(stmt)
    except Exception as e:
        if type(e).__name__ not in ("FailStepException", "TransitionEvent", "_Err"):
            err = "%s: %s" % (type(e).__name__, e)
    return rec.reads, rec.writes, err, rec.outside_reads


def check_statement(tname, forms):
    """returns list of (sub, detail), info"""
    try:
        stmt, sc, ar, cnt = make_statement(tname, forms)
    except Exception as e:
        return [("exception(%s)" % type(e).__name__, "constructing the statement: %s" % e)], None
    fails = []
    try:
        dr = set(stmt.get_read_variables())
        dw = set(stmt.get_written_variables())
    except Exception as e:
        return [("exception(%s)" % type(e).__name__, "get_read/written_variables: %s" % e)], None
    all_r, all_w = set(), set()
    variants = set()
    for sname, state in states_for(sc, ar):
        reads, writes, err, outside = execute(stmt, state)
        if err:
            fails.append(("harness-exec", "state %s: %s on %s" % (sname, err, stmt)))
            break
        variants.add(frozenset(reads))
        all_r |= reads
        all_w |= writes
        # a loop counter is exempt only while it is the loop's own variable: a read of that name before the
        # loop has bound it is a read of an outside variable
        bad_r = (reads - set(cnt) - dr - dw) | ((outside & set(cnt)) - dr - dw)
        bad_w = writes - set(cnt) - dw
        if bad_r and not any(f[0].startswith("undeclared-read") for f in fails):
            slot = sorted({v.rsplit("_", 1)[0] if "_" in v else "outside:" + v for v in bad_r})
            fails.append(("undeclared-read(%s)" % ",".join(slot),
                          "state %s: statement '%s' read %s; declared reads %s writes %s" % (
                              sname, stmt, sorted(bad_r), sorted(dr), sorted(dw))))
        if bad_w and not any(f[0].startswith("undeclared-write") for f in fails):
            fails.append(("undeclared-write", "state %s: statement '%s' wrote %s; declared writes %s" % (
                sname, stmt, sorted(bad_w), sorted(dw))))
    # identity mapping keeps the sets
    try:
        for inc in (True, False):
            m = stmt.map_expressions(lambda e: e, include_lhs=inc)
            if set(m.get_read_variables()) != dr or set(m.get_written_variables()) != dw:
                fails.append(("identity-map", "map_expressions(identity, include_lhs=%s) changes the sets of '%s': "
                              "reads %s -> %s, writes %s -> %s" % (
                                  inc, stmt, sorted(dr), sorted(m.get_read_variables()), sorted(dw),
                                  sorted(m.get_written_variables()))))
                break
    except Exception as e:
        fails.append(("exception(%s)" % type(e).__name__, "map_expressions(identity): %s on %s" % (e, stmt)))
    info = {"nontrivial": len(variants) > 1 or bool(cnt) or bool(ar),
            "outcome": [sorted(dr), sorted(dw), sorted(all_r), sorted(all_w)], "stmt": str(stmt)}
    return fails, info


GUARD_FORMS = ["T", 0, 2, 4, 5, 8]


def cases(tier):
    """(template, forms) with one slot varied at a time (quick) or two (thorough)"""
    seen = set()
    for tname, slots in TEMPLATES.items():
        base = {s: (0 if s != "guard" else "T") for s in slots}
        menus = {s: (GUARD_FORMS if s == "guard" else list(range(N_FORMS))) for s in slots}
        combos = [[s] for s in slots] + [list(c) for c in itertools.combinations(slots, 2)]
        combos += [list(c) for c in itertools.combinations(slots, 3)]
        if tier == "thorough":
            combos += [list(c) for c in itertools.combinations(slots, 4)]
        for combo in combos:
            for choice in itertools.product(*[menus[s] for s in combo]):
                forms = dict(base)
                for s, c in zip(combo, choice):
                    forms[s] = c
                key = (tname, json.dumps(forms, sort_keys=True))
                if key not in seen:
                    seen.add(key)
                    yield tname, forms


def bounds(tier):
    return {"templates": len(TEMPLATES), "expression_forms": N_FORMS, "guard_forms": len(GUARD_FORMS),
            "slots_varied_together": 3 if tier == "quick" else 4,
            "states_per_statement": "1 + number of scalar variables (each flipped to 0 once)"}


def shards(tier, seed):
    m = 32 if tier == "quick" else 128
    return [{"tier": tier, "mod": m, "rem": r} for r in range(m)]


def sig_of(sub, tname, forms):
    nd = {k: v for k, v in forms.items() if v not in (0, "T")}
    return "C08/%s:%s %s" % (sub, tname, json.dumps(nd, sort_keys=True))


def shrink(tname, forms, sub):
    cur = dict(forms)
    changed = True
    while changed:
        changed = False
        for s in list(cur):
            default = "T" if s == "guard" else 0
            if cur[s] != default:
                t = dict(cur)
                t[s] = default
                r, _ = check_statement(tname, t)
                if any(f[0] == sub for f in r):
                    cur = t
                    changed = True
    return cur


def run_shard(desc, acc):
    for i, (tname, forms) in enumerate(cases(desc["tier"])):
        if i % desc["mod"] != desc["rem"]:
            continue
        acc.evaluations += 1
        fails, info = check_statement(tname, forms)
        for sub, detail in fails:
            if acc.want_violation(sub):
                s = shrink(tname, forms, sub)
                r, _ = check_statement(tname, s)
                d = [f for f in r if f[0] == sub][0][1]
                acc.violation(sub, sig_of(sub, tname, s), {"template": tname, "forms": s}, d)
            else:
                acc.count_violation(sub)
        if info:
            if info["nontrivial"]:
                acc.nontrivial += 1
            acc.outcome(json.dumps(info["outcome"]))
            if i % 97 == 0 and not fails:
                acc.sample({"statement": info["stmt"], "declared_reads": info["outcome"][0],
                            "declared_writes": info["outcome"][1], "dynamic_reads": info["outcome"][2],
                            "dynamic_writes": info["outcome"][3]})


def replay(witness):
    tname, forms = witness["template"], witness["forms"]
    forms = {k: (v if not isinstance(v, str) or v == "T" else int(v)) for k, v in forms.items()}
    fails, _ = check_statement(tname, forms)
    out = []
    for sub, detail in fails:
        s = shrink(tname, forms, sub)
        r, _ = check_statement(tname, s)
        d = [f for f in r if f[0] == sub][0][1]
        out.append({"sub": sub, "sig": sig_of(sub, tname, s), "witness": {"template": tname, "forms": s},
                    "detail": d})
    return out
