"""C06 -- control-flow simplification never changes which statements run, or their order.

Exhaustive enumeration of every structured tree with <= N nodes over
{Block(0..3 children), IfThen, IfThenElse, leaf, NullASTNode} with conditions from
{p, !p, !!p, q, !q, True, False}; for each tree the real simplify_ast is run and the
guarded leaf trace of its result is compared with the trace of the input under all
four valuations of (p, q).  The simplified tree is fed back once more (it is an input
tree of the same language).
"""

import itertools

from mc import kernel
from mc.refsem import rtree_trace

ID = "C06"
LEVEL = "exploration"
TECHNIQUE = ("bounded exhaustive enumeration of all structured trees up to N nodes x all flag "
             "valuations, trace comparison against a tree-walking reference executor")
RULE = ("every tree with <= N nodes over {Block(0-3 children), IfThen, IfThenElse, leaf, Null} and "
        "7 condition forms is generated exactly once (size-ordered canonical generation); a case is "
        "non-trivial when simplify_ast returned a tree structurally different from its input; "
        "distinct_outcomes counts distinct (input traces under the 4 valuations) vectors")
ASSUMPTIONS = [
    "flags keep their truth value during a step (single-definition rule for <cond> flags, checked in C10)",
    "trees larger than the bound and conditions other than flags/negations/constants are not explored",
]

CONDS = ["p", "!p", "!!p", "q", "!q", "T", "F"]
CONDS_REDUCED = ["p", "!p", "q"]
VALS = [(False, False), (False, True), (True, False), (True, True)]


def bounds(tier):
    if tier == "quick":
        return {"max_nodes_full_condition_set": 6, "valuations": 4,
                "wide_blocks": "all blocks of 3-4 children over a 21-item menu of conditionals/leaves"}
    return {"max_nodes_full_condition_set": 7, "max_nodes_reduced_condition_set(p,!p,q)": 8,
            "valuations": 4, "with_forloop_nodes_max": 5,
            "wide_blocks": "all blocks of 3-5 children over a 21-item menu of conditionals/leaves"}


# ---- enumeration -------------------------------------------------------------

_cache = {}


def trees(n, conds, loops=False):
    """All trees with exactly n nodes (tuple-encoded), each exactly once."""
    key = (n, tuple(conds), loops)
    if n <= 4 and key in _cache:
        return _cache[key]
    g = _gen(n, conds, loops)
    if n <= 4:
        _cache[key] = list(g)
        return _cache[key]
    return g


def _splits(total, k):
    """ordered k-tuples of positive ints summing to total"""
    if k == 1:
        if total >= 1:
            yield (total,)
        return
    for first in range(1, total - k + 2):
        for rest in _splits(total - first, k - 1):
            yield (first,) + rest


def _gen(n, conds, loops):
    if n == 1:
        yield ("L",)
        yield ("N",)
        yield ("B",)
        return
    # Block with 1..3 children
    for k in (1, 2, 3):
        for split in _splits(n - 1, k):
            for kids in itertools.product(*[trees(s, conds, loops) for s in split]):
                yield ("B",) + kids
    for c in conds:
        for t in trees(n - 1, conds, loops):
            yield ("I", c, t)
    if loops:
        for t in trees(n - 1, conds, loops):
            yield ("F", t)
    if n >= 3:
        for c in conds:
            for split in _splits(n - 1, 2):
                for a in trees(split[0], conds, loops):
                    for b in trees(split[1], conds, loops):
                        yield ("E", c, a, b)


def root_shards(n, conds, loops=False):
    """Partition of trees(n) by root constructor / condition / size split."""
    out = []
    if n == 1:
        return [("leafs", n)]
    for k in (1, 2, 3):
        for split in _splits(n - 1, k):
            out.append(("B", n, split))
    for c in conds:
        out.append(("I", n, c))
    if loops:
        out.append(("F", n))
    if n >= 3:
        for c in conds:
            for split in _splits(n - 1, 2):
                out.append(("E", n, c, split))
    return out


def gen_shard(sh, conds, loops):
    kind = sh[0]
    if kind == "seq":
        yield from gen_seq(sh[2], sh[3])
        return
    if kind == "leafs":
        yield from _gen(1, conds, loops)
    elif kind == "B":
        _, n, split = sh
        for kids in itertools.product(*[trees(s, conds, loops) for s in split]):
            yield ("B",) + kids
    elif kind == "I":
        _, n, c = sh
        for t in trees(n - 1, conds, loops):
            yield ("I", c, t)
    elif kind == "F":
        _, n = sh
        for t in trees(n - 1, conds, loops):
            yield ("F", t)
    elif kind == "E":
        _, n, c, split = sh
        for a in trees(split[0], conds, loops):
            for b in trees(split[1], conds, loops):
                yield ("E", c, a, b)


SEQ_CONDS = ["p", "!p", "q", "!q", "T", "F"]


def seq_menu():
    menu = [("L",), ("N",), ("B", ("L",), ("L",))]
    for c in SEQ_CONDS:
        menu += [("I", c, ("L",)), ("E", c, ("L",), ("L",)), ("E", c, ("L",), ("N",))]
    return menu


def gen_seq(length, first):
    """wide, shallow trees: a block of `length` children from the menu (first child fixed by the shard)"""
    menu = seq_menu()
    for rest in itertools.product(menu, repeat=length - 1):
        yield ("B", menu[first]) + rest


def shards(tier, seed):
    out = []
    for length in ((3, 4) if tier == "quick" else (3, 4, 5)):
        for first in range(len(seq_menu())):
            m = 1 if length < 5 else 8
            for r in range(m):
                out.append({"sh": ["seq", 99, length, first], "conds": "full", "loops": False, "mod": m, "rem": r})

    def add(n, conds_name, loops=False):
        conds = CONDS if conds_name == "full" else CONDS_REDUCED
        for sh in root_shards(n, conds, loops):
            # split the heavy shards further by index
            heavy = (n >= 6 and sh[0] in ("I", "F")) or (n >= 8)
            m = 8 if heavy else 1
            for r in range(m):
                out.append({"sh": sh, "conds": conds_name, "loops": loops, "mod": m, "rem": r})

    top = 6 if tier == "quick" else 7
    for n in range(1, top + 1):
        add(n, "full")
    if tier == "thorough":
        add(8, "reduced")
        for n in range(2, 6):
            add(n, "full", loops=True)
    else:
        for n in range(2, 5):
            add(n, "full", loops=True)
    # big shards first for load balance
    out.sort(key=lambda d: -d["sh"][1] if d["sh"][0] != "seq" else -50)
    return out


# ---- building real ASTs --------------------------------------------------------

def _cond_expr(c):
    from pymbolic.primitives import LogicalNot, Variable
    if c == "T":
        return True
    if c == "F":
        return False
    e = Variable("<cond>" + c.lstrip("!"))
    for _ in range(len(c) - len(c.lstrip("!"))):
        e = LogicalNot(e)
    return e


_LEAVES = []


def _leaf(k):
    from dagrt.codegen.dag_ast import StatementWrapper
    from dagrt.language import Nop
    while len(_LEAVES) <= k:
        _LEAVES.append(Nop(id="s%d" % len(_LEAVES)))
    return StatementWrapper(_LEAVES[k])


def build(t, counter=None):
    from dagrt.codegen import dag_ast as A
    if counter is None:
        counter = [0]
    k = t[0]
    if k == "L":
        counter[0] += 1
        return _leaf(counter[0] - 1)
    if k == "N":
        return A.NullASTNode()
    if k == "B":
        return A.Block(*[build(c, counter) for c in t[1:]])
    if k == "I":
        return A.IfThen(_cond_expr(t[1]), build(t[2], counter))
    if k == "E":
        a = build(t[2], counter)
        b = build(t[3], counter)
        return A.IfThenElse(_cond_expr(t[1]), a, b)
    if k == "F":
        return A.ForLoop("i", 0, 2, build(t[1], counter))
    raise ValueError(t)


def _cval(c, p, q):
    if c == "T":
        return True
    if c == "F":
        return False
    v = p if c.endswith("p") else q
    if (len(c) - 1) % 2:
        v = not v
    return v


def ref_trace(t, p, q, out, counter, idx=()):
    """Reference trace computed on the tuple encoding (independent of dagrt)."""
    k = t[0]
    if k == "L":
        out.append(("s%d" % counter[0], idx))
        counter[0] += 1
    elif k == "N":
        pass
    elif k == "B":
        for c in t[1:]:
            ref_trace(c, p, q, out, counter, idx)
    elif k == "I":
        if _cval(t[1], p, q):
            ref_trace(t[2], p, q, out, counter, idx)
        else:
            counter[0] += count_leaves(t[2])
    elif k == "E":
        if _cval(t[1], p, q):
            ref_trace(t[2], p, q, out, counter, idx)
            counter[0] += count_leaves(t[3])
        else:
            counter[0] += count_leaves(t[2])
            ref_trace(t[3], p, q, out, counter, idx)
    elif k == "F":
        start = counter[0]
        for i in range(0, 2):
            counter[0] = start
            ref_trace(t[1], p, q, out, counter, idx + (("i", i),))
        counter[0] = start + count_leaves(t[1])
    return out


def count_leaves(t):
    k = t[0]
    if k == "L":
        return 1
    if k in ("N",):
        return 0
    if k == "B":
        return sum(count_leaves(c) for c in t[1:])
    if k == "I":
        return count_leaves(t[2])
    if k == "E":
        return count_leaves(t[2]) + count_leaves(t[3])
    if k == "F":
        return count_leaves(t[1])


def show(t):
    k = t[0]
    if k in ("L", "N"):
        return k
    if k == "B":
        return "B(" + ",".join(show(c) for c in t[1:]) + ")"
    if k == "I":
        return "I(%s,%s)" % (t[1], show(t[2]))
    if k == "E":
        return "E(%s,%s,%s)" % (t[1], show(t[2]), show(t[3]))
    if k == "F":
        return "F(" + show(t[1]) + ")"


def totuple(t):
    return tuple(totuple(x) if isinstance(x, (list, tuple)) else x for x in t)


# ---- oracle ----------------------------------------------------------------------

def _ser(node):
    from mc.checks.c05 import serialise
    try:
        return json.dumps(serialise(node))[:300]
    except Exception:
        return "<unprintable>"


def check_tree(t):
    """Returns (sub_oracle, detail) or None; plus info tuple (changed?, outcome key)."""
    from dagrt.codegen.dag_ast import simplify_ast
    ast = build(t)
    try:
        with kernel.time_limit(120):
            res = simplify_ast(ast)
    except kernel.Budget:
        # confirm deterministically
        try:
            kernel.with_line_budget(lambda: simplify_ast(build(t)), 2_000_000)
        except kernel.Budget:
            return ("budget", "simplify_ast exceeded 2e6 line events"), None
        res = simplify_ast(build(t))
    except Exception as e:
        return ("exception(%s)" % type(e).__name__, "%s: %s" % (type(e).__name__, e)), None
    vec = []
    for p, q in VALS:
        want = ref_trace(t, p, q, [], [0])
        val = {"<cond>p": p, "<cond>q": q, "i": 0}
        try:
            got = rtree_trace(res, val)
        except Exception as e:
            return ("exception(%s)" % type(e).__name__,
                    "walking the result failed: %s: %s" % (type(e).__name__, e)), None
        if got != want:
            return ("trace", "p=%s q=%s expected %s got %s" % (
                p, q, [x[0] for x in want], [x[0] for x in got])), None
        vec.append(tuple(x[0] for x in want))
    # a simplified phase body (root = block, as lowering produces) is read by both generators through the library's own
    # get_statements_in_ast: a result it cannot walk is not a program anybody can execute
    if t[0] == "B":
        from dagrt.codegen.dag_ast import get_statements_in_ast
        try:
            list(get_statements_in_ast(res))
        except Exception as e:
            return ("not-consumable", "the library's own get_statements_in_ast cannot walk the simplified block: "
                    "%s: %s; result %s" % (type(e).__name__, e, _ser(res))), None
    # feed the result back (it is an input of the same language)
    try:
        res2 = simplify_ast(res)
        for p, q in VALS:
            val = {"<cond>p": p, "<cond>q": q}
            if rtree_trace(res2, val) != rtree_trace(res, val):
                return ("trace", "second application changes the trace (p=%s q=%s) of %s" % (
                    p, q, show(t))), None
    except Exception as e:
        return ("exception(%s)" % type(e).__name__,
                "second application: %s: %s" % (type(e).__name__, e)), None
    return None, (res != ast, tuple(vec))


def _children_positions(t):
    k = t[0]
    if k == "B":
        return list(range(1, len(t)))
    if k == "I":
        return [2]
    if k == "E":
        return [2, 3]
    if k == "F":
        return [1]
    return []


def _candidates(t):
    """Smaller or simpler variants of t (deterministic order)."""
    k = t[0]
    for i in _children_positions(t):
        yield t[i]                                   # hoist a child
    if k == "B":
        for i in range(1, len(t)):
            yield t[:i] + t[i + 1:]                  # drop a child
    if k in ("I", "E") and t[1] != "p":
        order = ["p", "q", "!p", "!q", "T", "F", "!!p"]
        for c in order:
            if order.index(c) < order.index(t[1]):
                yield (k, c) + t[2:]
    if k == "E":
        yield ("I", t[1], t[2])
    if k not in ("L", "N") and t != ("B",):
        yield ("L",)
    for i in _children_positions(t):
        for c in _candidates(t[i]):
            yield t[:i] + (c,) + t[i + 1:]


def shrink(t, sub):
    t = totuple(t)
    while True:
        for c in _candidates(t):
            r, _ = check_tree(c)
            if r is not None and r[0] == sub:
                t = c
                break
        else:
            return t


def violation_record(t, sub, detail):
    s = shrink(t, sub)
    r, _ = check_tree(s)
    return {"sub": sub, "sig": "C06/%s:%s" % (sub, show(s)), "witness": {"tree": s, "found_as": show(t)},
            "detail": "%s on %s (shrunk from %s)" % (r[1] if r else detail, show(s), show(t))}


def run_shard(desc, acc):
    conds = CONDS if desc["conds"] == "full" else CONDS_REDUCED
    sh = totuple(desc["sh"])
    mod, rem = desc["mod"], desc["rem"]
    for i, t in enumerate(gen_shard(sh, conds, desc["loops"])):
        if mod > 1 and i % mod != rem:
            continue
        if (i & 0xfff) == 0 and acc.out_of_time():
            acc.cap("time cap hit in shard %r" % (desc,))
            return
        acc.evaluations += 1
        r, info = check_tree(t)
        if r is not None:
            sub, detail = r
            if acc.want_violation(sub):
                v = violation_record(t, sub, detail)
                acc.violation(sub, v["sig"], v["witness"], v["detail"])
            else:
                acc.count_violation(sub)
            continue
        changed, vec = info
        if changed:
            acc.nontrivial += 1
        acc.outcome(repr(vec))
        if acc.evaluations % 5000 == 1 and changed:
            acc.sample({"tree": show(t), "traces_under_(p,q)=FF,FT,TF,TT": [list(v) for v in vec]})


def replay(witness):
    t = totuple(witness["tree"])
    r, _ = check_tree(t)
    if r is None:
        return []
    sub, detail = r
    return [violation_record(t, sub, detail)]


LEVEL_TEXT = ("Every structured tree with <= 6 nodes (quick; <= 7, plus 8 over a reduced condition set, thorough) "
              "is run through the real simplify_ast and its guarded leaf trace is compared with the input's under all "
              "4 flag valuations; complete below the stated node bound, nothing sampled.")
LEVEL_NOTE = ("Trusted: the 40-line tree-walking trace executor and pymbolic's node classes. Trees above the node bound "
              "and non-flag conditions are outside the explored space.")
