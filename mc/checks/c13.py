"""C13 -- distinct IR names map to distinct, legal, stable target identifiers.

Explicit-state exploration of the real name managers over lookup sequences: operations
var(name), func(name) and (Fortran) unique(prefix), refcount(name), with names from an adversarial
pool (tags x short bodies over {a, A, _, 0, ^, *, blank, non-ASCII} + look-alikes of generated
names + one long name).  State = accumulated key -> identifier table; invariants are checked in
every state; the legality model is validated against compile() / gfortran -fsyntax-only.
"""

import itertools
import json
import keyword
import os
import re
import subprocess
import tempfile

from mc import kernel

ID = "C13"
LEVEL = "model_checking"
TECHNIQUE = ("explicit-state BFS over lookup sequences on the real Python/Fortran name managers (state = key->identifier "
             "table), invariants on every state, legality model validated against the target compilers")
RULE = ("sequences of <= k distinct lookups from the operation pool (ordered: lookup order is part of the quantifier); "
        "states = distinct accumulated tables (canonical: sorted pairs), transitions = lookups; non-trivial = states in "
        "which at least two keys share a sanitised base name or a key resembles a generated identifier; "
        "traces validated = sequences replayed (every one runs on a fresh real name manager)")
ASSUMPTIONS = ["Fortran identifier rule: letter first, [A-Za-z0-9_], <= 63 characters, compared case-insensitively",
               "Python identifier rule: str.isidentifier() and not a keyword, per dotted component"]
LEVEL_TEXT = ("All lookup sequences up to the bound are executed on fresh real name managers; legality, pairwise distinctness "
              "(case-folded for Fortran, across variables, functions, generator temporaries and reference counters), "
              "reserved names, stability of repeated lookups and storage class are checked in every reached state.")
LEVEL_NOTE = "Trusted: the two identifier-legality regexes (cross-checked by compile()/gfortran on sampled states)."

TAGS = ["", "<p>", "<state>", "<cond>", "<func>", "<ret_state>"]
CHARS = ["a", "A", "_", "0", "^", "*"]
EXTRA_BODIES = ["a b", "é", "local_a", "lploc_a", "global_a", "drtf_hoisted", "a_0", "p_a", "dagrt_refcnt_a",
                "dagrt_t", "if", "0a", "x" * 70, "x" * 70 + "y"]


def bodies():
    out = list(CHARS)
    out += [a + b for a in CHARS for b in CHARS]
    return out + EXTRA_BODIES


def pool(reduced=False):
    """operations (kind, name)"""
    ops = []
    bs = bodies()
    if reduced:
        bs = ["a", "A", "_", "a_", "_a", "a^", "a*", "a_0", "0a", "p_a", "lploc_a", "drtf_hoisted", "dagrt_refcnt_a", "if"]
    for tag in TAGS:
        for b in bs:
            name = tag + b
            if tag == "<func>":
                ops.append(("func", name))
            else:
                ops.append(("var", name))
    # untagged function names (registered user functions may have any id)
    for b in (bs if reduced else ["a", "A", "0a", "if", "lploc_a", "p_a", "drtf_hoisted", "a b", "x" * 70]):
        ops.append(("func", b))
    return ops


FORTRAN_ONLY = [("unique", "hoisted"), ("unique", "a"), ("unique", "A"), ("refcount", "a"), ("refcount", "<p>a"),
                ("refcount", "A"),
                # reference counters of two long names that agree in everything the truncation keeps
                ("refcount", "<p>" + "x" * 70), ("refcount", "<p>" + "x" * 70 + "y"), ("refcount", "x" * 70),
                ("refcount", "x" * 70 + "y")]

PY_RESERVED_SELF = {"t", "dt", "next_phase", "_numpy", "_functions", "phase_transition_table", "run",
                    "run_single_step", "set_up", "StateComputed", "StepCompleted", "StepFailed"}
# dagrt_t / dagrt_dt: dummy arguments of the generated initialize routine and members of the state type
F_RESERVED = {"dagrt_state", "dagrt_nan", "dagrt_next_phase", "dagrt_state_type", "dagrt_sub_state", "dagrt_t", "dagrt_dt"}

F_IDENT = re.compile(r"^[A-Za-z][A-Za-z0-9_]*$")


def is_persistent(name):
    return name in ("<t>", "<dt>") or name.startswith(("<state>", "<p>", "<ret_time_id>", "<ret_time>", "<ret_state>"))


_PY_RESERVED = []


def py_reserved_attrs():
    """what the generated class uses itself: every attribute of an instance of an actually generated class (methods,
    event classes, transition table, function container, ...) except those holding the method's persistent variables"""
    if not _PY_RESERVED:
        from dagrt.codegen.python import CodeGenerator
        from dagrt.codegen.utils import exec_in_new_namespace
        from dagrt.language import CodeBuilder, DAGCode
        with CodeBuilder("main") as cb:
            cb.assign("<state>y", "<state>y + <dt>")
        cg = CodeGenerator("Probe")
        src = cg(DAGCode.from_phases_list([cb.as_execution_phase("main")], "main"))
        obj = exec_in_new_namespace(src)["Probe"]({})
        before = set(dir(obj))
        obj.set_up(t_start=0, dt_start=1, context={"y": 1})
        held = {a for a in set(dir(obj)) - before}            # attributes created for persistent variables
        names = {a for a in dir(obj) if not (a.startswith("__") and a.endswith("__"))} - held
        # <t> and <dt> themselves live in self.t / self.dt: reserved for every OTHER name
        _PY_RESERVED.append(names | PY_RESERVED_SELF)
    return _PY_RESERVED[0]


class PyTarget:
    name = "python"

    def __init__(self):
        from dagrt.codegen.python import PythonNameManager
        self.nm = PythonNameManager()

    def lookup(self, op):
        kind, name = op[0], op[1]
        if kind == "var":
            return self.nm[name]
        if kind == "func":
            return self.nm.name_function(name)
        if kind == "clear":
            self.nm.clear_locals()        # a new phase function begins: local scope starts afresh
            return None
        return None

    def initial_keys(self):
        return set(self.nm.get_global_ids())

    def legal(self, ident):
        for comp in ident.split("."):
            if not comp.isidentifier():
                return "component %r is not an identifier" % comp
            if keyword.iskeyword(comp):
                return "component %r is a keyword" % comp
        return None

    def scope_key(self, op, ident):
        return ident            # dotted prefix separates the namespaces

    def storage_ok(self, op, ident):
        kind, name = op
        if kind == "func":
            return True             # where the generated class keeps the user's functions is its own business
        if is_persistent(name):
            return ident.startswith("self.")
        return "." not in ident and not ident.startswith("self")

    def reserved(self, ident):
        if ident.startswith("self."):
            rest = ident[5:]
            return rest in py_reserved_attrs()
        return ident in ("self", "evt", "numpy")


class FTarget:
    name = "fortran"

    def __init__(self):
        from dagrt.codegen.fortran import FortranNameManager
        self.nm = FortranNameManager()

    def lookup(self, op):
        kind, name = op[0], op[1]
        if kind == "var":
            return self.nm[name]
        if kind == "func":
            return self.nm.name_function(name)
        if kind == "unique":
            return self.nm.make_unique_fortran_name(name)
        if kind == "refcount":
            return self.nm.name_refcount(name)
        raise ValueError(op)

    def initial_keys(self):
        return set(iter(self.nm.global_map))

    def legal(self, ident):
        for comp in ident.split("%"):
            if not F_IDENT.match(comp):
                return "component %r is not a Fortran name" % comp
            if len(comp) > 63:
                return "component of length %d exceeds 63 characters" % len(comp)
        return None

    def scope_key(self, op, ident):
        # a state member is named by its last component: dagrt_state%p_a and a local p_a are the same Fortran name
        # in two scopes; the generator hands all of them out of one pool, and initialize/shutdown use the member
        # names as dummy arguments next to locals
        return ident.split("%")[-1].casefold()

    def storage_ok(self, op, ident):
        kind, name = op[0], op[1]
        if kind in ("func", "unique"):
            return "%" not in ident
        if is_persistent(name):
            return ident.startswith("dagrt_state%")
        return "%" not in ident

    def reserved(self, ident):
        # the members the generator itself defines (time, step size) are reserved for everything but <t> and <dt>
        return "%" not in ident and ident.casefold() in F_RESERVED


def minimal_failing(tcls, prefix, culprits, sub):
    """the named culprits if they fail alone; otherwise the failure needs history (e.g. a uniqueness suffix that only a
    second, colliding name receives): the shortest subsequence of the failing prefix that still fails"""
    def fails(ops):
        r = run_sequence(tcls, tuple(ops))[0]
        return r is not None and r[0] == sub
    if fails(culprits):
        return list(culprits)
    cur = list(prefix)
    changed = True
    while changed:
        changed = False
        for i in range(len(cur) - 1):
            c = cur[:i] + cur[i + 1:]
            if fails(c):
                cur = c
                changed = True
                break
    return cur


def run_sequence(target_cls, seq):
    """Runs the lookups on a fresh manager; returns (violation or None, final table, n_transitions)"""
    tgt = target_cls()
    r = stale_probe(target_cls, tgt)
    if r is not None:
        return r, {}, 0
    table = {}
    n_unique = 0
    for i, op in enumerate(seq):
        if op[0] == "unique":
            # not a keyed lookup: every call must hand out a new identifier
            n_unique += 1
            op = ("unique", op[1], n_unique)
        try:
            ident = tgt.lookup(op)
        except Exception as ex:
            return ("exception(%s)" % type(ex).__name__, "lookup %s raised %s: %s" % (op, type(ex).__name__, ex),
                    [op]), table, i
        if ident is None:
            if op[0] == "clear":
                # locals of the previous phase function are out of scope; globals and functions stay
                for k in [k for k, v in table.items() if k[0] == "var" and not is_persistent(k[1])]:
                    del table[k]
            continue
        if op in table:
            if table[op] != ident:
                return ("unstable", "%s mapped to %r, now to %r" % (op, table[op], ident), [op]), table, i
            continue
        why = tgt.legal(ident)
        if why:
            return ("illegal(%s)" % tgt.name, "%s -> %r: %s" % (op, ident, why), [op]), table, i
        if not tgt.storage_ok(op, ident):
            return ("storage-class", "%s -> %r is in the wrong storage class" % (op, ident), [op]), table, i
        if tgt.reserved(ident):
            return ("reserved", "%s -> %r which the generator uses itself" % (op, ident), [op]), table, i
        for op2, id2 in table.items():
            if tgt.scope_key(op2, id2) == tgt.scope_key(op, ident):
                how = "exactly" if id2 == ident else "up to letter case"
                return ("duplicate(%s,%s)" % (tgt.name, how.split()[0] if how == "exactly" else "casefold"),
                        "%s -> %r and %s -> %r coincide %s" % (op2, id2, op, ident, how), [op2, op]), table, i
        table[op] = ident
        # every earlier lookup repeated gives the same answer
        for op2, id2 in list(table.items()):
            if op2[0] == "unique":
                continue
            again = tgt.lookup(op2)
            if again != id2:
                return ("unstable", "%s mapped to %r, after %s it maps to %r" % (op2, id2, op, again),
                        [op2, op]), table, i
    return None, table, len(seq)


def stale_probe(target_cls, fresh=None):
    """a freshly constructed manager knows only the predefined keys, whatever earlier manager objects mapped"""
    if fresh is None:
        first = target_cls()
        first.lookup(("var", "<p>verif_probe"))
        first.lookup(("var", "<state>verif_probe"))
        fresh = target_cls()
    extra = fresh.initial_keys() - {"<t>", "<dt>"}
    if extra:
        return ("stale-state", "a freshly constructed name manager already knows %s (state shared with earlier "
                "manager objects)" % sorted(extra)[:5], [("var", "<p>verif_probe")])
    return None


def canon_table(table):
    return json.dumps(sorted((list(k), v) for k, v in table.items()))


def bounds(tier):
    return {"pool_ops_python": len(pool()), "pool_ops_fortran": len(pool()) + len(FORTRAN_ONLY),
            "k_full_pool": 2, "k_reduced_pool": 3 if tier == "quick" else 4,
            "reduced_pool_ops": len(pool(True)), "compile_validation_states": "final states of all length-1 sequences "
            "+ every 50th length-2 state"}


def shards(tier, seed):
    out = []
    for tname in ("python", "fortran"):
        n = len(ops_for(tname, False))
        for first in range(n):
            out.append({"target": tname, "mode": "full2", "first": first})
        nr = len(ops_for(tname, True))
        k = 3 if tier == "quick" else 4
        for first in range(nr):
            out.append({"target": tname, "mode": "reduced", "first": first, "k": k})
        out.append({"target": tname, "mode": "compile"})
    # Python: locals of two consecutive phase functions (clear_locals between them)
    nvar = len([o for o in pool(False) if o[0] == "var"])
    for first in range(nvar):
        out.append({"target": "python", "mode": "phases", "first": first})
    return out


def ops_for(tname, reduced):
    ops = pool(reduced)
    if tname == "fortran":
        ops = ops + FORTRAN_ONLY
    else:
        ops = ops + [("clear", "")]
    return ops


def nontrivial_seq(seq):
    from dagrt.codegen.utils import make_identifier_from_name
    bases = [re.sub(r"[^A-Za-z0-9_]", "_", n).strip("_").casefold() for _, n in seq]
    if len(set(bases)) < len(bases):
        return True
    return any(re.search(r"lploc_|local|global_|drtf_|dagrt_|_0$|^p_", n) for _, n in seq)


def sig_of(sub, tname, ops):
    def pat(op):
        kind, name = op[0], op[1]
        if keyword.iskeyword(name):
            return "%s:KEYWORD" % kind
        m = re.match(r"^(<[a-z_]+>)?(.*)$", name)
        body = m.group(2)
        cls = re.sub(r"[^A-Za-z0-9]", "_", body)
        cls = re.sub(r"[a-z]", "a", re.sub(r"[A-Z]", "A", re.sub(r"[0-9]", "0", cls)))
        if len(cls) > 12:
            cls = cls[:3] + "...(%d)" % len(body)
        if body in EXTRA_BODIES and len(body) > 2 and len(body) < 20:
            cls = body
        return "%s:%s%s" % (kind, m.group(1) or "", cls)
    return "C13/%s:%s" % (sub, " ".join(sorted(pat(o) for o in ops)))


def run_shard(desc, acc):
    tname = desc["target"]
    tcls = PyTarget if tname == "python" else FTarget
    if desc["mode"] == "compile":
        return run_compile_validation(desc, acc, tcls)
    if desc["mode"] == "phases":
        return run_phase_sequences(desc, acc, tcls)
    reduced = desc["mode"] == "reduced"
    ops = ops_for(tname, reduced)
    first = ops[desc["first"]]
    k = desc.get("k", 2)
    states = set()
    reported = set()
    for n in range(1, k + 1):
        for rest in itertools.permutations([o for o in ops if o != first], n - 1):
            seq = (first,) + rest
            acc.evaluations += 1
            r, table, ntr = run_sequence(tcls, seq)
            acc.transitions += ntr
            acc.traces += 1
            if r is not None:
                sub, detail, culprits = r
                if sub == "stale-state":
                    culprits = [("var", "<p>verif_probe")]
                else:
                    culprits = minimal_failing(tcls, seq[:ntr + 1], culprits, sub)
                sig = sig_of(sub, tname, culprits)
                if sig not in reported:
                    reported.add(sig)
                    acc.violation(sub, sig, {"target": tname, "sequence": [list(o) for o in culprits]},
                                  "%s\nminimal sequence %s (found in %s)" % (detail, culprits, list(seq)))
                else:
                    acc.count_violation(sub)
                continue
            c = canon_table(table)
            states.add(c)
            if nontrivial_seq(seq):
                acc.nontrivial += 1
            acc.outcome(c)
            if acc.evaluations % 30000 == 1:
                acc.sample({"target": tname, "lookups": [list(o) for o in seq],
                            "table": sorted((list(kk), v) for kk, v in table.items())})
    acc.states += len(states)


def run_phase_sequences(desc, acc, tcls):
    """(a; new phase; a, b) and (a; new phase; b, a) for every ordered pair of variable names"""
    vops = [o for o in pool(False) if o[0] == "var"]
    a = vops[desc["first"]]
    reported = set()
    for b in vops:
        if b == a:
            continue
        for seq in ((a, ("clear", ""), a, b), (a, ("clear", ""), b, a), (a, b, ("clear", ""), b, a)):
            acc.evaluations += 1
            r, table, ntr = run_sequence(tcls, seq)
            acc.transitions += ntr
            acc.traces += 1
            if r is not None:
                sub, detail, culprits = r
                sig = sig_of(sub, "python", culprits) + " after a new phase"
                if sig not in reported:
                    reported.add(sig)
                    acc.violation(sub, sig, {"target": "python", "sequence": [list(o) for o in seq], "phases": True},
                                  "%s\nsequence %s" % (detail, list(seq)))
                continue
            acc.nontrivial += 1
            acc.states += 1


def py_compiles(idents):
    src = ["class C:", " def m(self):"]
    for i in idents:
        if i.startswith("self._functions."):
            src.append("  %s = 1" % i)
        else:
            src.append("  %s = 1" % i)
    try:
        compile("\n".join(src) + "\n", "<c13>", "exec")
        return True
    except SyntaxError:
        return False


def f_compiles(idents):
    decl = []
    for i in idents:
        decl.append(" integer :: %s" % i.split("%")[-1])
    src = "program p\n implicit none\n%s\nend program\n" % "\n".join(decl)
    with tempfile.TemporaryDirectory(dir=os.environ.get("TMPDIR", "/tmp")) as d:
        p = os.path.join(d, "n.f90")
        with open(p, "w") as f:
            f.write(src)
        r = subprocess.run(["gfortran", "-fsyntax-only", p], capture_output=True, text=True)
        return r.returncode == 0


def run_compile_validation(desc, acc, tcls):
    """the legality/distinctness model vs. the target compiler on single lookups and sampled pairs"""
    tname = desc["target"]
    ops = ops_for(tname, False)
    seqs = [(o,) for o in ops]
    pairs = list(itertools.permutations(ops_for(tname, True), 2))
    seqs += pairs[::50]
    for seq in seqs:
        tgt = tcls()
        idents = []
        try:
            for op in seq:
                if op[0] == "clear":
                    continue
                idents.append(tgt.lookup(op))
        except Exception:
            continue
        if not idents:
            continue
        model_ok = all(tgt.legal(i) is None for i in idents) and \
            len({tgt.scope_key(None, i) for i in idents}) == len(idents)
        acc.evaluations += 1
        acc.count("compiler_validations")
        real_ok = py_compiles(idents) if tname == "python" else f_compiles(idents)
        if model_ok != real_ok:
            acc.violation("model-vs-compiler", "C13/model-vs-compiler:%s %s" % (tname, sig_of("", tname, list(seq))),
                          {"target": tname, "sequence": [list(o) for o in seq], "compile": True},
                          "legality model says %s but the compiler says %s for identifiers %s" % (
                              model_ok, real_ok, idents))


def replay(witness):
    tname = witness["target"]
    tcls = PyTarget if tname == "python" else FTarget
    seq = [tuple(o[:2]) for o in witness["sequence"]]
    if seq and seq[0][1] == "<p>verif_probe" or witness.get("stale"):
        r = stale_probe(tcls)
        return [] if r is None else [{"sub": r[0], "sig": sig_of(r[0], tname, r[2]), "witness": witness, "detail": r[1]}]
    if witness.get("compile"):
        acc = kernel.Acc()
        run_compile_validation({"target": tname}, acc, tcls)
        return [v for v in acc.violations if v["witness"]["sequence"] == witness["sequence"]]
    r, _, _ = run_sequence(tcls, seq)
    if r is None:
        return []
    sub, detail, culprits = r
    if witness.get("phases"):
        return [{"sub": sub, "sig": sig_of(sub, tname, culprits) + " after a new phase", "witness": witness,
                 "detail": detail}]
    culprits = minimal_failing(tcls, seq, culprits, sub)
    return [{"sub": sub, "sig": sig_of(sub, tname, culprits),
             "witness": {"target": tname, "sequence": [list(o) for o in culprits]}, "detail": detail}]
