"""C09 -- inferred kinds agree with the values computed at run time.

(a) every built-in x every argument-kind tuple from the value menu: declared get_result_kinds vs
    the value returned by the Python implementation (and by the generated-code pattern).
(b) all programs with <= k assignments from a kind-relevant statement menu (plus a chain
    sub-space over 4 variables): where infer_kinds succeeds, the interpreter is run on a
    recording store and EVERY stored value is checked against the concretisation of its kind.
"""

import contextlib
import io
import itertools
import json

import numpy as np
import pymbolic.primitives as P

from mc import kernel, prog

ID = "C09"
LEVEL = "exploration"
TECHNIQUE = ("exhaustive built-in x argument-kind table; bounded exhaustive enumeration of programs, kind inference on the "
             "real SymbolKindFinder, run-time value checking on an instrumented interpreter store")
RULE = ("(a) builtins x argument tuples over the 6-value menu; (b) ordered statement sequences of length <= k from the menu "
        "(+ all 4-sequences of the chain menu); evaluations = programs + builtin calls; non-trivial = programs on which "
        "inference succeeded and the interpreter completed 2 steps; distinct_outcomes = distinct kind tables")
ASSUMPTIONS = ["concretisation: Boolean=bool; Integer=integral non-bool; Scalar(real)=real scalar incl. integers; "
               "Scalar(complex)=any numeric scalar; Array(real)=real 1-D ndarray; Array(complex)=any numeric ndarray; "
               "UserType(id)=tagged ndarray with that id",
               "programs on which the interpreter itself fails (division by zero, shape errors) are out of domain"]
LEVEL_TEXT = ("Every program in the bounded space on which inference succeeds is executed and each individual store "
              "(every statement, every loop iteration, 2 steps) is checked against its inferred kind; the built-in table is "
              "covered completely.")
LEVEL_NOTE = "Trusted: the concretisation function gamma (20 lines) and the tagged ndarray subclass."


class Tagged(np.ndarray):
    """user-type value: ndarray carrying its type identifier"""
    def __new__(cls, data, utype_id):
        obj = np.asarray(data, dtype=float).view(cls)
        obj.utype_id = utype_id
        return obj

    def __array_finalize__(self, obj):
        self.utype_id = getattr(obj, "utype_id", None)


def in_gamma(kind, v):
    from dagrt.data import Array, Boolean, Integer, Scalar, UserType
    if kind is None:
        return False
    if isinstance(kind, UserType):
        return isinstance(v, Tagged) and v.utype_id == kind.identifier
    if isinstance(v, Tagged) and v.ndim > 0:
        return False
    if isinstance(kind, Boolean):
        return isinstance(v, (bool, np.bool_))
    if isinstance(v, (bool, np.bool_)):
        return False
    if isinstance(kind, Integer):
        return isinstance(v, (int, np.integer))
    if isinstance(kind, Scalar):
        if isinstance(v, np.ndarray) and v.ndim > 0:
            return False
        if isinstance(v, np.ndarray):
            v = v.item()
        if not isinstance(v, (int, float, complex, np.number)):
            return False
        if kind.is_real_valued:
            return not isinstance(v, (complex, np.complexfloating))
        return True
    if isinstance(kind, Array):
        if not isinstance(v, np.ndarray) or v.ndim != 1:
            return False
        if v.dtype.kind not in "iufc":
            return False
        if kind.is_real_valued:
            return v.dtype.kind != "c"
        return True
    return False


def vclass(v):
    if isinstance(v, Tagged) and v.ndim > 0:
        return "usertype(%s)" % v.utype_id
    if isinstance(v, np.ndarray) and v.ndim > 0:
        return "array(%s)" % v.dtype.kind
    if isinstance(v, (bool, np.bool_)):
        return "bool"
    if isinstance(v, (complex, np.complexfloating)):
        return "complex"
    if isinstance(v, (int, np.integer)):
        return "int"
    if isinstance(v, (float, np.floating)):
        return "float"
    return type(v).__name__


def kname(k):
    if k is None:
        return "None"
    a = k.__getinitargs__()
    return type(k).__name__ + (repr(tuple(a)) if a else "")


# ---- (a) builtins -----------------------------------------------------------------------------

def value_menu():
    from dagrt.data import Array, Integer, Scalar, UserType
    return [
        ("Scalar(real)", Scalar(True), 2.0),
        ("Scalar(complex)", Scalar(False), 1 + 2j),
        ("Integer", Integer(), 2),
        ("Array(real)", Array(True), np.array([4.0, 1.0, 2.0, 3.0])),
        ("Array(complex)", Array(False), np.array([4.0, 1.0, 2.0, 3.0j])),
        ("UserType(ytype)", UserType("ytype"), Tagged([1.0, -2.0, 3.0, 0.5], "ytype")),
    ]


def check_builtins(acc):
    from dagrt.builtins_python import builtins
    from dagrt.function_registry import base_function_registry as reg
    menu = value_menu()
    for fid, func in sorted(reg.id_to_function.items()):
        if fid == "<builtin>print":
            continue
        impl = builtins[fid]
        n = len(func.arg_names)
        for combo in itertools.product(menu, repeat=n):
            acc.evaluations += 1
            arg_kinds = {i: c[1] for i, c in enumerate(combo)}
            try:
                declared = func.get_result_kinds(arg_kinds, True)
            except Exception:
                acc.count("builtin_combination_rejected_by_kind_check")
                continue
            try:
                with np.errstate(all="ignore"):
                    res = impl(*[c[2].copy() if hasattr(c[2], "copy") else c[2] for c in combo])
            except Exception:
                acc.count("builtin_implementation_raises")
                continue
            if len(declared) == 1:
                res = (res,)
            acc.nontrivial += 1
            acc.outcome("%s(%s)->%s" % (fid, ",".join(c[0] for c in combo), ",".join(kname(k) for k in declared)))
            for k, v in zip(declared, res):
                if not in_gamma(k, v):
                    names = ",".join(c[0] for c in combo)
                    acc.violation("builtin-result", "C09/builtin-result:%s(%s)" % (fid, names),
                                  {"builtin": fid, "args": [c[0] for c in combo]},
                                  "%s(%s) is declared to return %s but the implementation returned a %s (%r)" % (
                                      fid, names, kname(k), vclass(v), v))
                    break


# ---- (b) programs --------------------------------------------------------------------------------

def rhs_menu():
    V = P.Variable
    return {
        "1": 1, "2.5": 2.5, "1j": 1j, "<t>": V("<t>"), "dt*2": P.Product((V("<dt>"), 2)),
        "u+v": P.Sum((V("u"), V("v"))), "u*v": P.Product((V("u"), V("v"))), "u/v": P.Quotient(V("u"), V("v")),
        "u**2": P.Power(V("u"), 2), "2**u": P.Power(2, V("u")), "u**v": P.Power(V("u"), V("v")),
        "dt**2": P.Power(V("<dt>"), 2), "u+dt**2": P.Sum((V("u"), P.Power(V("<dt>"), 2))),
        "u>v": P.Comparison(V("u"), ">", V("v")),
        "and": P.LogicalAnd((P.Comparison(V("u"), ">", 1), P.Comparison(V("v"), ">", 1))),
        "not": P.LogicalNot(P.Comparison(V("u"), ">", 1)),
        "min": P.Min((V("u"), V("v"))), "max": P.Max((V("u"), 1j)),
        "r[0]": P.Subscript(V("r"), 0), "len(r)": P.Call(V("<builtin>len"), (V("r"),)),
        "norm(r)": P.Call(V("<builtin>norm_2"), (V("r"),)),
        "norm(y)": P.Call(V("<builtin>norm_2"), (V("<state>y"),)),
        "f(t,y)": P.Call(V("<func>f"), (V("<t>"), V("<state>y"))),
        "y*2": P.Product((V("<state>y"), 2)), "y+f": P.Sum((V("<state>y"), P.Call(V("<func>f"), (V("<t>"), V("<state>y"))))),
        "dot(r,r)": P.Call(V("<builtin>dot_product"), (V("r"), V("r"))),
        "isnan(u)": P.Call(V("<builtin>isnan"), (V("u"),)),
        "isnan(r)": P.Call(V("<builtin>isnan"), (V("r"),)),
        "abs(r)": P.Call(V("<builtin>elementwise_abs"), (V("r"),)),
        "g+1": P.Sum((V("<p>g"), 1)), "g*1j": P.Product((V("<p>g"), 1j)), "u*1j": P.Product((V("u"), 1j)),
        "r*1j": P.Product((V("r"), 1j)),
        # literal zeros / units next to complex or array operands (pymbolic.flatten is not purely structural)
        "u*0": P.Product((V("u"), 0)), "0*r": P.Product((0, V("r"))), "u+0j": P.Sum((V("u"), 0j)),
        "(1+0j)*u": P.Product((1 + 0j, V("u"))), "u**1": P.Power(V("u"), 1), "r/(1+0j)": P.Quotient(V("r"), 1 + 0j),
    }


LHS = ["u", "v", "w", "<p>g"]
SPECIAL = {
    "r=array": [("r", P.Call(P.Variable("<builtin>array"), (3,)), ()), ("r[i]", P.Sum((P.Variable("i"), 1)), (("i", 0, 3),))],
    "r[i]=u": [("r[i]", P.Variable("u"), (("i", 0, 3),))],
    "w=i/(i+i)": [("w", P.Quotient(P.Variable("i"), P.Sum((P.Variable("i"), P.Variable("i")))), (("i", 1, 3),))],
    "w=i": [("w", P.Variable("i"), (("i", 0, 3),))],
    "w=i*2.5": [("w", P.Product((P.Variable("i"), 2.5)), (("i", 0, 3),))],
}


def menu():
    out = []
    rm = rhs_menu()
    for lhs in LHS:
        for name, e in rm.items():
            out.append(("%s=%s" % (lhs, name), [(lhs, e, ())]))
    for name, stmts in SPECIAL.items():
        out.append((name, stmts))
    return out


def chain_menu():
    V = P.Variable
    out = []
    for lhs in ("<p>g", "b", "c", "d"):
        for name, e in (("g+1", P.Sum((V("<p>g"), 1))), ("b+1", P.Sum((V("b"), 1))), ("c+1", P.Sum((V("c"), 1))),
                        ("d*1j", P.Product((V("d"), 1j))), ("1", 1)):
            out.append(("%s=%s" % (lhs, name), [(lhs, e, ())]))
    return out


_REG = []


def registry():
    if not _REG:
        from dagrt.function_registry import base_function_registry, register_ode_rhs
        _REG.append(register_ode_rhs(base_function_registry, "ytype", identifier="<func>f",
                                     input_type_ids=("ytype",), input_names=("y",)))
    return _REG[0]


def f_rhs(t, y):
    return Tagged(np.asarray(y) * 0.5 + t, "ytype")


def build(items, first="init"):
    """first: name of the first-inserted phase ("zinit" makes the insertion order differ from the sorted one)"""
    from dagrt.language import CodeBuilder, DAGCode, ExecutionPhase
    with CodeBuilder(first) as cb0:
        cb0.assign("<p>g", 1)
        # the first phase uses main's per-step names for values of another kind: per-step variables are per phase
        for nm in ("u", "w", "b"):
            cb0.assign(nm, "<builtin>array(2)")
        cb0.assign("r", 1j)
    with CodeBuilder("main") as cb:
        for _, stmts in items:
            for lhs, rhs, loops in stmts:
                if loops:
                    cb.assign(lhs, rhs, loops=[tuple(l) for l in loops])
                else:
                    cb.assign(lhs, rhs)
    phases = {first: ExecutionPhase(first, "main", list(cb0.statements)),
              "main": ExecutionPhase("main", "main", list(cb.statements))}
    return DAGCode(phases, first)


class CheckingStore(dict):
    def __init__(self, table, phase_getter, loopvars):
        super().__init__()
        self.table = table
        self.phase_getter = phase_getter
        self.bad = None
        self.loopvars = loopvars
        self.unset_read = None

    def sibling(self):
        """another mapping of the same interpreter (e.g. a scratch namespace): same checks, verdicts reported here"""
        main = self

        class Sib(CheckingStore):
            def __contains__(s, name):
                return dict.__contains__(s, name)       # only the last mapping of a chain can tell "unset"

            def __setitem__(s, name, v):
                main._check(name, v)
                dict.__setitem__(s, name, v)
        return Sib(self.table, self.phase_getter, self.loopvars)

    def kind_of(self, name):
        from dagrt.utils import is_state_variable
        if is_state_variable(name):
            return self.table.global_table.get(name, "<missing>")
        return self.table.per_phase_table.get(self.phase_getter(), {}).get(name, "<missing>")

    def __contains__(self, name):
        r = super().__contains__(name)
        if not r and not name.startswith(("<func>", "<builtin>")) and self.unset_read is None:
            # the interpreter silently evaluates an unset variable to None: such a program is out of domain
            self.unset_read = name
        return r

    def _check(self, name, v):
        if self.bad is None and not name.startswith("<state>") and name not in ("<t>", "<dt>"):
            k = self.kind_of(name)
            if k == "<missing>" or k is None:
                self.bad = ("no-kind", name, None, v)
            elif not in_gamma(k, v):
                self.bad = ("value-not-in-kind", name, k, v)

    def __setitem__(self, name, v):
        self._check(name, v)
        super().__setitem__(name, v)


def assigned_kind_classes(items, name, tbl):
    """kind classes of the right-hand sides assigned to `name`, each inferred on its own against the final table"""
    from dagrt.data import KindInferenceMapper
    out = set()
    if name == "<p>g":
        out.add("Scalar")        # the fixed prelude assigns <p>g <- 1 in phase init
    for _, stmts in items:
        for lhs, rhs, loops in stmts:
            if lhs != name:
                continue
            kim = KindInferenceMapper(tbl.global_table, tbl.per_phase_table.get("main", {}), registry(), check=False)
            try:
                from pymbolic import flatten
                k = kim(flatten(rhs))        # what the finder looks at (and what Assign stores)
                out.add(type(k).__name__)
            except Exception:
                out.add("?")
    return sorted(out)


def check_program(items):
    """both phase namings: insertion order equal to / different from the alphabetical order"""
    r, status, tstr = check_program_1(items, "init")
    if r is None and status == "ok":
        r2, status2, _ = check_program_1(items, "zinit")
        if r2 is not None:
            return r2, status2, tstr
    return r, status, tstr


def check_program_1(items, first):
    """returns (violation or None, status, table string)"""
    from dagrt.data import infer_kinds
    from dagrt.exec_numpy import NumpyInterpreter
    try:
        dag = build(items, first)
    except Exception as ex:
        return None, "build-fails", None
    buf = io.StringIO()
    try:
        with contextlib.redirect_stdout(buf):
            with kernel.time_limit(120):
                tbl = infer_kinds(dag, registry())
    except kernel.Budget:
        return ("budget", "kind inference did not terminate"), "hang", None
    except Exception:
        return None, "inference-fails", None
    tstr = json.dumps([sorted((k, kname(v)) for k, v in tbl.global_table.items()),
                       sorted((p, sorted((k, kname(v)) for k, v in t.items()))
                              for p, t in tbl.per_phase_table.items())])
    it = NumpyInterpreter(dag, {"<func>f": f_rhs})
    cur = {"phase": first}
    store = CheckingStore(tbl, lambda: cur["phase"], set())
    prog.install_store(it, store, store.sibling)
    dict.__setitem__(store, "<t>", 0.0)
    dict.__setitem__(store, "<dt>", 0.5)
    dict.__setitem__(store, "<state>y", Tagged([1.0, -2.0, 3.0], "ytype"))
    # array cell writes: check after each step through the arrays themselves
    try:
        with np.errstate(all="ignore"):
            for step in range(3):
                cur["phase"] = it.next_phase
                for _ in it.run_single_step():
                    pass
                if store.bad:
                    break
                for name, v in list(store.items()):
                    if name.startswith("<state>") or name in ("<t>", "<dt>"):
                        continue
                    k = store.kind_of(name)
                    if k == "<missing>" or k is None:
                        store.bad = ("no-kind", name, None, v)
                    elif not in_gamma(k, v):
                        store.bad = ("value-not-in-kind", name, k, v)
    except Exception:
        if not store.bad:
            return None, "interpreter-fails", tstr
    if store.unset_read is not None:
        return None, "reads-unset-variable", tstr
    if store.bad:
        what, name, k, v = store.bad
        if what == "no-kind":
            return ("no-kind", "variable %s is assigned (a %s) but has no kind in the table %s" % (
                name, vclass(v), tstr)), "ok", tstr
        kinds = assigned_kind_classes(items, name, tbl)
        kfull = type(k).__name__ + ("" if not hasattr(k, "is_real_valued") else
                                    ("(real)" if k.is_real_valued else "(complex)"))
        if len(kinds) > 1:
            cause = "mixed-assignment(%s) kind=%s" % (",".join(kinds), type(k).__name__)
        else:
            cause = "single(%s) kind=%s value=%s" % (",".join(kinds), kfull, vclass(v))
        return ("value-not-in-kind",
                "variable %s has kind %s but the interpreter stored a %s: %r [%s]" % (
                    name, kname(k), vclass(v), v, cause), cause), \
            "ok", tstr
    return None, "ok", tstr


def programs(tier):
    m = menu()
    k = 2
    for n in range(1, k + 1):
        yield from itertools.product(m, repeat=n)
    core = [x for x in m if x[0] in CORE3]
    yield from itertools.product(core, repeat=3)
    cm = chain_menu()
    yield from itertools.product(cm, repeat=4)
    if tier == "thorough":
        core4 = [x for x in m if x[0] in CORE4]
        yield from itertools.product(core4, repeat=4)
        yield from itertools.product(cm, repeat=5)


CORE3 = ["u=u*0", "v=u+0j", "u=0*r", "u=1", "u=1j", "v=u+v", "v=u*v", "v=u/v", "w=u**v", "w=u+dt**2", "u=r[0]", "r=array", "r[i]=u", "w=i", "u=f(t,y)",
         "v=y+f", "<p>g=g*1j", "u=g+1", "w=u>v", "v=2.5", "w=norm(r)", "u=r*1j", "v=isnan(u)", "w=min", "w=max", "v=u*1j",
         "<p>g=u*v", "w=u+v"]
CORE4 = ["u=1", "u=1j", "v=u+v", "w=u*v", "u=r[0]", "r=array", "r[i]=u", "<p>g=g*1j", "u=g+1", "v=u*1j", "w=u+v", "<p>g=u*v"]


def bounds(tier):
    return {"builtins": "all registered built-ins x all argument tuples over 6 kinds", "statement_menu": len(menu()),
            "k": 2, "k3_core": len(CORE3), "chain_menu": len(chain_menu()), "chain_k": 4 if tier == "quick" else 5,
            "k4_core": len(CORE4) if tier == "thorough" else 0, "steps": 3}


def shards(tier, seed):
    m = 64 if tier == "quick" else 256
    return [{"part": "builtins"}] + [{"part": "programs", "tier": tier, "mod": m, "rem": r} for r in range(m)]


def shrink(items, sub):
    items = list(items)
    changed = True
    while changed:
        changed = False
        for i in range(len(items)):
            c = items[:i] + items[i + 1:]
            if not c:
                continue
            r, _, _ = check_program(c)
            if r is not None and r[0] == sub:
                items = c
                changed = True
                break
    return items


def run_shard(desc, acc):
    if desc["part"] == "builtins":
        check_builtins(acc)
        return
    for i, items in enumerate(programs(desc["tier"])):
        if i % desc["mod"] != desc["rem"]:
            continue
        if acc.out_of_time():
            acc.cap("time cap in shard %r" % desc)
            return
        acc.evaluations += 1
        r, status, tstr = check_program(items)
        acc.count("status:" + status)
        if status == "ok":
            acc.nontrivial += 1
            acc.outcome(tstr)
        else:
            acc.excluded += 1
        if r is not None:
            sub = r[0]
            if acc.want_violation(sub, r[2] if len(r) > 2 else ""):
                s = shrink(items, sub)
                r2, _, _ = check_program(s)
                sigw = (r2 or r)[2] if len(r2 or r) > 2 else "; ".join(n for n, _ in s)
                acc.violation(sub, "C09/%s:%s" % (sub, sigw), {"program": [n for n, _ in s]},
                              "program: %s\n%s" % ("; ".join(n for n, _ in s), (r2 or r)[1]))
            else:
                acc.count_violation(sub)
        elif status == "ok" and i % 1500 == 0:
            acc.sample({"program": [n for n, _ in items], "kind_table": json.loads(tstr)})


def replay(witness):
    if "builtin" in witness:
        acc = kernel.Acc()
        check_builtins(acc)
        return [v for v in acc.violations if v["witness"] == witness]
    allm = dict(menu())
    allm.update(dict(chain_menu()))
    items = [(n, allm[n]) for n in witness["program"]]
    r, _, _ = check_program(items)
    if r is None:
        return []
    s = shrink(items, r[0])
    r2, _, _ = check_program(s)
    rr = r2 or r
    return [{"sub": r[0], "sig": "C09/%s:%s" % (r[0], rr[2] if len(rr) > 2 else "; ".join(n for n, _ in s)),
             "witness": {"program": [n for n, _ in s]}, "detail": (r2 or r)[1]}]
