"""C10 -- well-formedness verification accepts exactly the well-formed methods.

Exhaustive enumeration of methods: phase p0 carries every directed graph on n <= 3 statements
(self-loops included) x per-statement extra edge {none, dangling, cross-phase} x switch target
{none, existing, missing} x flag assignments {none, one, two in one phase, one per phase};
n = 4 with every directed graph and no extra edges.  verify_code's verdict is compared with a
15-line graph checker; every accepted method is fed to the interpreter and both generators.
"""

import itertools
import json

from mc import kernel

ID = "C10"
LEVEL = "exploration"
TECHNIQUE = ("exhaustive enumeration of all dependency digraphs (n<=4, self-loops, dangling and cross-phase edges) x switch "
             "targets x flag assignments; verify_code verdict vs independent graph checker; consumers run on accepted ones")
RULE = ("methods = (digraph on p0's statements as adjacency bitmask, extra-edge tuple, switch target, flag pattern), each "
        "generated once; non-trivial = methods with at least one edge or extra feature; distinct_outcomes = distinct "
        "(verdict, error-count>0, reference verdict, reason) tuples")
ASSUMPTIONS = ["statements are plain assignments / one SwitchPhase / flag assignments; the second phase is fixed",
               "a wall-clock guard of 120 s decides 'hangs' (confirmed with a deterministic line budget)"]
LEVEL_TEXT = ("All digraphs on up to 4 statements (65536 for n=4) are crossed with the ill-formedness features the property "
              "names; acceptance is compared with an independent checker in both directions, the exception type and message "
              "count are checked on rejection, and accepted methods are processed by the interpreter, the Python generator "
              "and (n<=3) the Fortran generator.")
LEVEL_NOTE = "Trusted: the reference graph checker (DFS cycle test, per-phase id sets)."

EXTRA = ["none", "dangling", "cross"]
SWITCH = ["none", "existing", "missing", "missing-prefix", "missing-joined", "missing-empty", "missing-then-existing"]
MISSING_TARGETS = {"missing": "zz", "missing-prefix": "p", "missing-joined": "p0, p1", "missing-empty": ""}
FLAGS = ["none", "one", "two-in-one-phase", "two-identical-in-one-phase", "one-per-phase", "two-one-by-call"]


def ref_wellformed(n, edges, extras, switch, flags):
    """returns (ok, reason)"""
    if any(e != "none" for e in extras):
        return False, "dependency-outside-phase"
    # acyclic?
    deps = {i: [j for (a, j) in edges if a == i] for i in range(n)}
    color = {}

    def visit(i):
        if color.get(i) == 1:
            return False
        if color.get(i) == 2:
            return True
        color[i] = 1
        for j in deps[i]:
            if not visit(j):
                return False
        color[i] = 2
        return True
    if not all(visit(i) for i in range(n)):
        return False, "cycle"
    if switch.startswith("missing"):
        return False, "missing-phase"
    if flags in ("two-in-one-phase", "two-identical-in-one-phase", "two-one-by-call"):
        return False, "flag-redefined"
    return True, "well-formed"


PLACEMENTS = ["first", "last-in-dict", "last-by-name"]


def build_method(n, edges, extras, switch, flags, placement="first"):
    """placement: where the phase under examination sits relative to the (always clean) other phase -- first in the
    phase dict and by name; last in the dict; last in the dict and by name"""
    from dagrt.language import Assign, DAGCode, ExecutionPhase, SwitchPhase
    xn, cn = ("p1", "p0") if placement == "last-by-name" else ("p0", "p1")
    stmts = []
    for i in range(n):
        d = ["s%d" % j for (a, j) in edges if a == i]
        if extras[i] == "dangling":
            d.append("nowhere")
        elif extras[i] == "cross":
            d.append("q0")
        if i == n - 2 and switch == "missing-then-existing":
            # two switch statements in one phase (the ordinary if/else switch): the dangling one is not the last
            stmts.append(SwitchPhase("zz", id="s%d" % i, depends_on=d))
        elif i == n - 1 and switch != "none":
            stmts.append(SwitchPhase(cn if switch in ("existing", "missing-then-existing") else MISSING_TARGETS[switch],
                                     id="s%d" % i, depends_on=d))
        elif i == 0 and flags != "none":
            stmts.append(Assign(id="s0", assignee="<cond>c", assignee_subscript=(), expression=True, depends_on=d))
        elif i == 1 and flags == "two-one-by-call":
            from dagrt.language import AssignFunctionCall
            from pymbolic.primitives import Variable
            stmts.append(AssignFunctionCall(id="s1", assignees=("<cond>c",), function_id="<func>f",
                                            parameters=(Variable("<t>"),), depends_on=d))
        elif i == 1 and flags in ("two-in-one-phase", "two-identical-in-one-phase"):
            stmts.append(Assign(id="s1", assignee="<cond>c", assignee_subscript=(),
                                expression=(False if flags == "two-in-one-phase" else True), depends_on=d))
        else:
            stmts.append(Assign(id="s%d" % i, assignee="<p>x%d" % i, assignee_subscript=(), expression=i,
                                depends_on=d))
    q = [Assign(id="q0", assignee="<p>y", assignee_subscript=(), expression=1.5)]
    if flags == "one-per-phase":
        q.append(Assign(id="q1", assignee="<cond>c", assignee_subscript=(), expression=True, depends_on=["q0"]))
    px, pc = ExecutionPhase(xn, cn, stmts), ExecutionPhase(cn, xn, q)
    phases = {xn: px, cn: pc} if placement == "first" else {cn: pc, xn: px}
    return DAGCode(phases, xn)


TWO_FLAGS = ("two-in-one-phase", "two-identical-in-one-phase", "two-one-by-call")


def feasible(n, switch, flags):
    # the switch statement(s) replace the last (two) statement(s); flags use s0 (and s1)
    need = {"none": 0, "missing-then-existing": 2}.get(switch, 1)
    need += 2 if flags in TWO_FLAGS else (1 if flags in ("one", "one-per-phase") else 0)
    return n >= max(need, 1)


def check_method(n, edges, extras, switch, flags, consumers=True, fortran=False, placement="first"):
    from dagrt.codegen.analysis import CodeGenerationError, verify_code
    ok, reason = ref_wellformed(n, edges, extras, switch, flags)
    dag = build_method(n, edges, extras, switch, flags, placement)
    verdict = None
    try:
        with kernel.time_limit(120):
            verify_code(dag)
        verdict = "accepted"
    except kernel.Budget:
        try:
            kernel.with_line_budget(lambda: verify_code(build_method(n, edges, extras, switch, flags, placement)),
                                    3_000_000)
            verdict = "accepted"
        except kernel.Budget:
            return ("budget", "verify_code exceeded 3e6 line events (%s)" % reason), ("hang", reason)
        except Exception:
            verdict = "raised"
    except CodeGenerationError as e:
        verdict = "rejected"
        if not getattr(e, "errors", None):
            return ("no-message", "CodeGenerationError without a message (%s)" % reason), (verdict, reason)
        try:
            str(e)
        except Exception as e2:
            return ("no-message", "str(CodeGenerationError) raised %s" % e2), (verdict, reason)
    except Exception as e:
        return ("wrong-exception(%s)" % type(e).__name__,
                "verify_code raised %s: %s on a method that is %s" % (type(e).__name__, e, reason)), ("raised", reason)
    if verdict == "accepted" and not ok:
        return ("accepts-ill-formed(%s)" % reason, "verify_code accepted a method with: %s" % reason), (verdict, reason)
    if verdict == "rejected" and ok:
        return ("rejects-well-formed", "verify_code rejected a well-formed method"), (verdict, reason)
    if verdict == "accepted" and consumers:
        r = run_consumers(dag, fortran)
        if r is not None:
            return r, (verdict, reason)
    return None, (verdict, reason)


def run_consumers(dag, fortran):
    from dagrt.exec_numpy import NumpyInterpreter
    try:
        it = NumpyInterpreter(dag, {})
        it.set_up(t_start=0, dt_start=1, context={})
        with kernel.time_limit(120):
            for _ in it.run(max_steps=2):
                pass
    except kernel.Budget:
        return ("consumer-fails(interpreter,hang)", "interpreter did not finish 2 steps of an accepted method")
    except Exception as e:
        return ("consumer-fails(interpreter,%s)" % type(e).__name__, "interpreter: %s: %s" % (type(e).__name__, e))
    try:
        from dagrt.codegen.python import CodeGenerator
        with kernel.time_limit(120):
            CodeGenerator("M")(dag)
    except kernel.Budget:
        return ("consumer-fails(python,hang)", "Python generator did not terminate on an accepted method")
    except Exception as e:
        return ("consumer-fails(python,%s)" % type(e).__name__, "python generator: %s: %s" % (type(e).__name__, e))
    if fortran:
        try:
            from dagrt.codegen.fortran import CodeGenerator as F
            with kernel.time_limit(60):
                F("m", user_type_map={})(dag)
        except kernel.Budget:
            return ("consumer-fails(fortran,hang)", "Fortran generator did not terminate on an accepted method")
        except Exception as e:
            return ("consumer-fails(fortran,%s)" % type(e).__name__,
                    "fortran generator: %s: %s" % (type(e).__name__, str(e)[:300]))
    return None


def graphs(n):
    pairs = [(i, j) for i in range(n) for j in range(n)]
    for mask in range(1 << len(pairs)):
        yield mask, [pairs[b] for b in range(len(pairs)) if mask >> b & 1]


def cases(tier):
    """yield (n, mask, edges, extras, switch, flags)"""
    for n in (1, 2, 3):
        for mask, edges in graphs(n):
            for extras in itertools.product(EXTRA, repeat=n):
                for sw in SWITCH:
                    for fl in FLAGS:
                        if feasible(n, sw, fl):
                            yield n, mask, edges, extras, sw, fl
    n = 4
    for mask, edges in graphs(4):
        if tier == "quick":
            combos = [("none", "none"), ("existing", "one-per-phase")] if mask % 4 == 0 else [("none", "none")]
        else:
            combos = [(sw, fl) for sw in SWITCH[:3] for fl in FLAGS]
        for sw, fl in combos:
            yield n, mask, edges, ("none",) * 4, sw, fl
        if tier == "thorough":
            for k in range(4):
                for ex in ("dangling", "cross"):
                    extras = tuple(ex if i == k else "none" for i in range(4))
                    yield n, mask, edges, extras, "none", "none"


def bounds(tier):
    return {"n<=3": "all 2^(n*n) digraphs x 3^n extra-edge tuples x 7 switch patterns (none, existing, 4 missing ones incl. a prefix of / the joined / the empty name, a missing one followed by an existing one) x 6 flag patterns (incl. a flag written by an assignment and by a call statement)",
            "n=4": "all 65536 digraphs x " + ("(no extras; switch/flags on every 4th graph)" if tier == "quick" else
                                              "3 switch targets x 4 flag patterns + one dangling/cross edge"),
            "placement": "n<=3: the examined phase first / last in the phase dict / last in the dict and by name (the other phase "
            "is clean); n=4: first",
            "consumers": "interpreter (2 steps) + Python generator on every accepted method; Fortran generator for n<=3"}


def shards(tier, seed):
    m = 64 if tier == "quick" else 256
    return [{"tier": tier, "mod": m, "rem": r} for r in range(m)]


def sig_of(sub, n, edges, extras, sw, fl, placement="first"):
    best = None
    for perm in itertools.permutations(range(n)):
        # s0/s1/last carry roles when flags/switch are present: only relabel when no roles
        if (sw != "none" or fl != "none") and perm != tuple(range(n)):
            continue
        e = sorted((perm[a], perm[b]) for a, b in edges)
        x = [None] * n
        for i in range(n):
            x[perm[i]] = extras[i]
        key = json.dumps([e, x])
        if best is None or key < best:
            best = key
    return "C10/%s:n=%d %s switch=%s flags=%s%s" % (sub, n, best, sw, fl,
                                                   "" if placement == "first" else " placement=" + placement)


def shrink(w, sub):
    def fails(x):
        if not feasible(x["n"], x["switch"], x["flags"]):
            return False
        r, _ = check_method(x["n"], [tuple(e) for e in x["edges"]], tuple(x["extras"]), x["switch"], x["flags"],
                            fortran=x["n"] <= 3, placement=x.get("placement", "first"))
        return r is not None and r[0] == sub

    def cands(x):
        n = x["n"]
        if x["switch"] != "none":
            yield dict(x, switch="none")
        if x["flags"] != "none":
            yield dict(x, flags="none")
        for i in range(n):
            if x["extras"][i] != "none":
                ex = list(x["extras"])
                ex[i] = "none"
                yield dict(x, extras=ex)
        for e in x["edges"]:
            yield dict(x, edges=[f for f in x["edges"] if f != e])
        if x["switch"] == "none" and x["flags"] == "none":
            for v in range(n):
                if n == 1:
                    break
                ren = {i: (i if i < v else i - 1) for i in range(n) if i != v}
                yield {"n": n - 1, "edges": [[ren[a], ren[b]] for a, b in x["edges"] if a != v and b != v],
                       "extras": [x["extras"][i] for i in range(n) if i != v], "switch": "none", "flags": "none",
                       "placement": x.get("placement", "first")}
    cur = w
    while True:
        for c in cands(cur):
            if fails(c):
                cur = c
                break
        else:
            return cur


def run_shard(desc, acc):
    for i, (n, mask, edges, extras, sw, fl) in enumerate(cases(desc["tier"])):
        if i % desc["mod"] != desc["rem"]:
            continue
        if (i & 0x3ff) == 0 and acc.out_of_time():
            acc.cap("time cap in shard %r" % desc)
            return
        first_failed = False
        for placement in (PLACEMENTS if n <= 3 else PLACEMENTS[:1]):
            acc.evaluations += 1
            r, out = check_method(n, edges, extras, sw, fl, fortran=(n <= 3), placement=placement)
            acc.outcome(json.dumps(out))
            if edges or any(e != "none" for e in extras) or sw != "none" or fl != "none":
                acc.nontrivial += 1
            if out[0] == "accepted":
                acc.count("accepted")
            elif out[0] == "rejected":
                acc.count("rejected")
            if r is not None:
                sub = r[0]
                if placement == "first":
                    first_failed = True
                elif first_failed:
                    acc.count_violation(sub)        # fails wherever the phase sits: reported for the first placement
                    continue
                if acc.want_violation(sub):
                    w = {"n": n, "edges": [list(e) for e in edges], "extras": list(extras), "switch": sw, "flags": fl,
                         "placement": placement}
                    s = shrink(w, sub)
                    r2, _ = check_method(s["n"], [tuple(e) for e in s["edges"]], tuple(s["extras"]), s["switch"],
                                         s["flags"], fortran=s["n"] <= 3, placement=placement)
                    acc.violation(sub, sig_of(sub, s["n"], s["edges"], s["extras"], s["switch"], s["flags"], placement),
                                  s, "%s\nmethod: %s" % ((r2 or r)[1], json.dumps(s)))
                else:
                    acc.count_violation(sub)
            elif i % 4001 == 0 and placement == "first":
                acc.sample({"n": n, "edges(i depends on j)": edges, "extras": extras, "switch": sw, "flags": fl,
                            "verify_code": out[0], "reference": out[1]})


def replay(witness):
    w = witness
    pl = w.get("placement", "first")
    r, _ = check_method(w["n"], [tuple(e) for e in w["edges"]], tuple(w["extras"]), w["switch"], w["flags"],
                        fortran=w["n"] <= 3, placement=pl)
    if r is None:
        return []
    s = shrink(w, r[0])
    r2, _ = check_method(s["n"], [tuple(e) for e in s["edges"]], tuple(s["extras"]), s["switch"], s["flags"],
                         fortran=s["n"] <= 3, placement=pl)
    return [{"sub": r[0], "sig": sig_of(r[0], s["n"], s["edges"], s["extras"], s["switch"], s["flags"], pl),
             "witness": s, "detail": "%s\nmethod: %s" % ((r2 or r)[1], json.dumps(s))}]
