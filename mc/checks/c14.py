"""C14 -- kind inference is order-independent; kind unification is a partial join.

(a) unify over the whole kind universe: all 81 pairs and 729 triples (idempotent, commutative and
    associative wherever defined).
(b) kind inference on every program with <= k assignments drawn from a kind-relevant statement
    menu, under EVERY permutation of each phase's statement list and both phase orders: the table
    (or the exception type) must be the same for all presentations.
"""

import contextlib
import io
import itertools
import json
import os

from mc import kernel

ID = "C14"
LEVEL = "exploration"
TECHNIQUE = ("exhaustive pairs/triples over the finite kind universe; bounded exhaustive enumeration of programs x all "
             "statement-list permutations x both phase orders x hash seeds (subprocesses)")
RULE = ("(a) all pairs and triples over 9 kinds; (b) programs = sets of <= k statements from a menu of (lhs, rhs) pairs, "
        "each evaluated under all permutations of each phase list and both phase orders; evaluations = inference runs + "
        "unify calls; non-trivial = programs with >= 2 distinct presentations on which inference returns a table; "
        "distinct_outcomes = distinct outcomes (tables / exception types)")
ASSUMPTIONS = ["unify(Boolean, Boolean) raising is taken as 'undefined' (by design: arithmetic with flags)",
               "hash-seed independence is explored for seeds {0,1,2} (quick) / {0..6} (thorough) on every 7th program, "
               "first presentation"]
LEVEL_TEXT = ("The kind universe is finite and covered completely; for inference every presentation (all permutations, "
              "both phase orders) of every program in the bounded space is run on the real SymbolKindFinder and outcomes "
              "are compared pairwise against the first presentation.")
LEVEL_NOTE = "Trusted: outcome serialisation. Programs above k statements are outside the space."


def universe():
    from dagrt.data import Array, Boolean, Integer, Scalar, UserType
    return [None, Boolean(), Integer(), Scalar(True), Scalar(False), Array(True), Array(False),
            UserType("a"), UserType("b")]


def kname(k):
    if k is None:
        return "None"
    n = type(k).__name__
    a = k.__getinitargs__()
    return n + (repr(tuple(a)) if a else "")


def kclass(k):
    return "None" if k is None else type(k).__name__


def try_unify(a, b):
    from dagrt.data import unify
    try:
        return ("ok", unify(a, b))
    except Exception as e:
        return ("exc", type(e).__name__)


def check_unify(acc):
    U = universe()
    viols = []
    for a in U:
        acc.evaluations += 1
        r = try_unify(a, a)
        if r[0] == "ok" and r[1] != a:
            viols.append(("idempotent", "C14/idempotent:%s" % kclass(a), {"kinds": [kname(a)]},
                          "unify(%s, %s) = %s" % (kname(a), kname(a), kname(r[1]))))
    for a, b in itertools.product(U, repeat=2):
        acc.evaluations += 1
        r1, r2 = try_unify(a, b), try_unify(b, a)
        acc.outcome("pair:%s" % json.dumps([kname(a), kname(b), r1[0], kname(r1[1]) if r1[0] == "ok" else r1[1]]))
        if r1[0] == "ok":
            acc.nontrivial += 1
        if r1[0] != r2[0] or (r1[0] == "ok" and r1[1] != r2[1]):
            cl = sorted([kclass(a), kclass(b)])
            viols.append(("commutative", "C14/commutative:%s,%s" % tuple(cl),
                          {"kinds": [kname(a), kname(b)]},
                          "unify(%s, %s) -> %s but unify(%s, %s) -> %s" % (
                              kname(a), kname(b), _show(r1), kname(b), kname(a), _show(r2))))
    for a, b, c in itertools.product(U, repeat=3):
        acc.evaluations += 1
        ab = try_unify(a, b)
        left = try_unify(ab[1], c) if ab[0] == "ok" else ab
        bc = try_unify(b, c)
        right = try_unify(a, bc[1]) if bc[0] == "ok" else bc
        if left[0] != right[0] or (left[0] == "ok" and left[1] != right[1]):
            cl = sorted([kclass(a), kclass(b), kclass(c)])
            viols.append(("associative", "C14/associative:%s,%s,%s" % tuple(cl),
                          {"kinds": [kname(a), kname(b), kname(c)]},
                          "unify(unify(%s, %s), %s) -> %s but unify(%s, unify(%s, %s)) -> %s" % (
                              kname(a), kname(b), kname(c), _show(left), kname(a), kname(b), kname(c),
                              _show(right))))
    return viols


def _show(r):
    return kname(r[1]) if r[0] == "ok" else "raises " + r[1]


# ---- (b) inference ---------------------------------------------------------------------------

LHS = ["x", "y", "z", "<p>g"]
RHS = ["1", "1j", "<t>", "y", "z", "x + z", "y * z", "y + 1j", "z > 1", "<builtin>array(3)",
       "<builtin>norm_2(y)", "<p>g", "<p>g + y", "<func>f(<t>, y)", "y[0]", "<builtin>isnan(z)",
       "<builtin>matmul(y, z, 2, 2)"]
LOOPED = [("x[i]", "1", [("i", "0", "3")]), ("y[i]", "z", [("i", "0", "3")])]


def menu():
    out = []
    for lhs in LHS:
        for rhs in RHS:
            if rhs == lhs:
                continue
            out.append((lhs, rhs, ()))
    for lhs, rhs, loops in LOOPED:
        out.append((lhs, rhs, tuple(loops)))
    return out


_REG = []


def registry():
    if not _REG:
        from dagrt.function_registry import base_function_registry, register_ode_rhs
        _REG.append(register_ode_rhs(base_function_registry, "ytype", identifier="<func>f",
                                     input_type_ids=("ytype",), input_names=("y",)))
    return _REG[0]


_STMT = {}


def make_stmt(spec, idx):
    from dagrt.language import CodeBuilder
    key = (spec, idx)
    if key not in _STMT:
        with CodeBuilder("ph") as cb:
            lhs, rhs, loops = spec
            if rhs == "1j":
                rhs = 1j
            elif rhs == "y + 1j":
                from pymbolic.primitives import Sum, Variable
                rhs = Sum((Variable("y"), 1j))
            if loops:
                cb.assign(lhs, rhs, loops=[tuple(l) for l in loops])
            else:
                cb.assign(lhs, rhs)
        st = cb.statements[-1].copy(id="s%d" % idx, depends_on=frozenset())
        _STMT[key] = st
    return _STMT[key]


def infer_dag(presentation):
    """the same presentation through the DAGCode entry point infer_kinds() (phase dict in presentation order)"""
    from dagrt.data import infer_kinds
    from dagrt.language import DAGCode, ExecutionPhase
    dag = DAGCode({p: ExecutionPhase(p, p, list(s)) for p, s in presentation}, presentation[0][0])
    buf = io.StringIO()
    try:
        with contextlib.redirect_stdout(buf):
            with kernel.time_limit(120):
                tbl = infer_kinds(dag, registry())
    except kernel.Budget:
        return ["hang"]
    except Exception as e:
        return ["exc", type(e).__name__]
    g = sorted((k, kname(v)) for k, v in tbl.global_table.items())
    per = sorted((p, sorted((k, kname(v)) for k, v in t.items())) for p, t in tbl.per_phase_table.items() if t)
    return ["table", g, per]


def infer(presentation, one_shot=False):
    """presentation: list of (phase name, [statements]) in order.  Returns canonical outcome.
    one_shot: each phase is handed over as an iterator that can be consumed once (as the Fortran generator does)."""
    from dagrt.data import SymbolKindFinder
    names = [p for p, _ in presentation]
    phases = [s for _, s in presentation]
    if one_shot:
        phases = [(x for x in s) for s in phases]
    buf = io.StringIO()
    try:
        with contextlib.redirect_stdout(buf):
            with kernel.time_limit(120):
                tbl = SymbolKindFinder(registry())(names, phases)
    except kernel.Budget:
        return ["hang"]
    except Exception as e:
        return ["exc", type(e).__name__]
    g = sorted((k, kname(v)) for k, v in tbl.global_table.items())
    per = sorted((p, sorted((k, kname(v)) for k, v in t.items())) for p, t in tbl.per_phase_table.items() if t)
    return ["table", g, per]


def presentations(prog):
    """prog: tuple of statement specs. statements writing <p>g live in phase 'b', the rest in 'a'."""
    # statement ids are unique within a phase only (both phases count from s0), as the language requires
    a = [make_stmt(sp, i) for i, sp in enumerate([sp for sp in prog if sp[0] != "<p>g"])]
    b = [make_stmt(sp, i) for i, sp in enumerate([sp for sp in prog if sp[0] == "<p>g"])]
    for pa in itertools.permutations(a):
        for pb in itertools.permutations(b):
            if b and a:
                yield [("a", list(pa)), ("b", list(pb))]
                yield [("b", list(pb)), ("a", list(pa))]
            elif a:
                yield [("a", list(pa))]
            else:
                yield [("b", list(pb))]


def check_program(prog, acc=None):
    base = None
    n = 0
    for pres in presentations(prog):
        out = infer(pres)
        n += 1
        if acc is not None:
            acc.evaluations += 1
        if len(pres) == 2 and n <= 2:
            # both phase orders also through the DAGCode entry point
            outd = infer_dag(pres)
            if acc is not None:
                acc.evaluations += 1
            if outd != out and not (outd[0] == "exc" and out[0] == "exc"):
                return ("infer_kinds-entry:" + classify(out, outd), describe(prog, (out, pres), (outd, pres)).replace(
                    "but presentation", "but infer_kinds() on a DAGCode holding the same phases, presentation")), \
                    (base[0] if base else out), n
        if base is None:
            base = (out, pres)
            out1 = infer(pres, one_shot=True)
            if acc is not None:
                acc.evaluations += 1
            if out1 != out and not (out1[0] == "exc" and out[0] == "exc"):
                return ("one-shot-iterables:" + classify(out, out1), describe(prog, base, (out1, pres)).replace(
                    "but presentation", "but with each phase given as a one-shot iterator, presentation")), base[0], n
            continue
        if out != base[0]:
            if out[0] == "exc" and base[0][0] == "exc":
                # no table is produced under either presentation: which of several errors of the
                # program is reported first is not part of the property
                continue
            return (classify(base[0], out), describe(prog, base, (out, pres))), base[0], n
    return None, base[0], n


def classify(o1, o2):
    if o1[0] == "hang" or o2[0] == "hang":
        return "budget"
    if o1[0] != o2[0]:
        return "table-in-one-order-exception-in-another"
    # table differences: which kind classes differ
    d1 = dict(o1[1])
    d2 = dict(o2[1])
    for p, t in o1[2]:
        d1.update({p + "/" + k: v for k, v in t})
    for p, t in o2[2]:
        d2.update({p + "/" + k: v for k, v in t})
    diffs = set()
    for k in set(d1) | set(d2):
        if d1.get(k) != d2.get(k):
            diffs.add(tuple(sorted([str(d1.get(k, "absent")).split("(")[0], str(d2.get(k, "absent")).split("(")[0]])))
    return "order-dependent-table(%s)" % ";".join("%s/%s" % d for d in sorted(diffs))


def describe(prog, b1, b2):
    def pres_str(pres):
        return " | ".join("%s: %s" % (p, "; ".join(str(s) for s in st)) for p, st in pres)
    return "presentation [%s] gives %s\nbut presentation [%s] gives %s" % (
        pres_str(b1[1]), json.dumps(b1[0])[:500], pres_str(b2[1]), json.dumps(b2[0])[:500])


def prog_str(prog):
    return "; ".join("%s <- %s%s" % (l, r, "".join(" [%s=%s..%s]" % tuple(x) for x in lo)) for l, r, lo in prog)


def shrink(prog, sub):
    cur = list(prog)
    changed = True
    while changed:
        changed = False
        for i in range(len(cur)):
            c = cur[:i] + cur[i + 1:]
            if not c:
                continue
            r, _, _ = check_program(tuple(c))
            if r is not None and r[0] == sub:
                cur = c
                changed = True
                break
    return tuple(cur)


def bounds(tier):
    return {"kind_universe": 9, "pairs": 81, "triples": 729, "statement_menu": len(menu()),
            "k<=3": "all subsets of the full menu",
            "k=4": "all 4-subsets of a core menu with %d right-hand sides" % (4 if tier == "quick" else 7),
            "k=5": "all 5-subsets of the 4-rhs core menu (thorough only)",
            "presentations": "all permutations per phase x both phase orders; the first presentation also with every phase "
            "given as a one-shot iterator; both phase orders also through infer_kinds(DAGCode)",
            "hash_seeds": [0, 1, 2] if tier == "quick" else [0, 1, 2, 3, 4, 5, 6]}


CORE_RHS = ["1", "1j", "y", "x + z", "y * z", "z > 1", "<builtin>array(3)", "<p>g", "<func>f(<t>, y)"]


def core_menu(n_rhs):
    rhs = CORE_RHS[:n_rhs]
    return [m for m in menu() if m[1] in rhs and not m[2]] + [m for m in menu() if m[2]][:1]


def programs(tier):
    m = menu()
    for k in (1, 2, 3):
        yield from itertools.combinations(m, k)
    cm = core_menu(4 if tier == "quick" else 7)
    yield from itertools.combinations(cm, 4)
    if tier == "thorough":
        yield from itertools.combinations(core_menu(4), 5)


def shards(tier, seed):
    m = 64 if tier == "quick" else 256
    out = [{"part": "unify"}]
    out += [{"part": "infer", "tier": tier, "mod": m, "rem": r} for r in range(m)]
    out += [{"part": "seeds", "tier": tier, "seed": s} for s in ((1, 2) if tier == "quick" else (1, 2, 3, 4, 5, 6))]
    return out


def run_shard(desc, acc):
    if desc["part"] == "unify":
        for sub, sig, w, detail in check_unify(acc):
            acc.violation(sub, sig, w, detail)
        return
    if desc["part"] == "seeds":
        return run_seed_slice(desc, acc)
    for i, prog in enumerate(programs(desc["tier"])):
        if i % desc["mod"] != desc["rem"]:
            continue
        if acc.out_of_time():
            acc.cap("time cap in shard %r" % desc)
            return
        r, base, n = check_program(prog, acc)
        acc.outcome(json.dumps(base))
        if n >= 2 and base[0] == "table":
            acc.nontrivial += 1
        if r is not None:
            sub = r[0]
            if acc.want_violation(sub):
                s = shrink(prog, sub)
                r2, _, _ = check_program(s)
                acc.violation(sub, "C14/%s:%s" % (sub, prog_str(s)), {"program": [list(x) for x in s]},
                              "program: %s\n%s" % (prog_str(s), (r2 or r)[1]))
            else:
                acc.count_violation(sub)
        elif i % 2000 == 0:
            acc.sample({"program": prog_str(prog), "presentations": n, "outcome": base})


def digest_slice(tier):
    """outcome digests of the first presentation of a fixed slice of programs (used across hash seeds)"""
    import hashlib
    out = {}
    for i, prog in enumerate(programs("quick")):
        if i % 7:
            continue
        pres = next(iter(presentations(prog)))
        out[prog_str(prog)] = hashlib.sha1(json.dumps(infer(pres)).encode()).hexdigest()[:12]
    return out


def run_seed_slice(desc, acc):
    import subprocess
    import sys
    code = ("import sys, json; sys.path.insert(0, %r); sys.path.insert(0, %r); "
            "from mc.checks import c14; print(json.dumps(c14.digest_slice('quick')))" % (kernel.REPO, kernel.VERIF))
    env = dict(os.environ, PYTHONHASHSEED=str(desc["seed"]))
    p = subprocess.run([sys.executable, "-c", code], env=env, capture_output=True, text=True, timeout=3000)
    if p.returncode != 0:
        raise RuntimeError("seed subprocess failed: %s" % p.stderr[-500:])
    other = json.loads(p.stdout.strip().splitlines()[-1])
    mine = digest_slice("quick")
    acc.evaluations += len(other)
    for k in mine:
        if mine[k] != other.get(k):
            acc.violation("hash-seed-dependent", "C14/hash-seed-dependent:%s" % k,
                          {"program_str": k, "seed": desc["seed"]},
                          "inference outcome of '%s' differs between PYTHONHASHSEED=0 and %d" % (k, desc["seed"]))
            break


def replay(witness):
    if "kinds" in witness:
        acc = kernel.Acc()
        return [{"sub": s, "sig": g, "witness": w, "detail": d} for s, g, w, d in check_unify(acc)
                if w["kinds"] == witness["kinds"]]
    if "program_str" in witness:
        acc = kernel.Acc()
        run_seed_slice({"seed": witness["seed"]}, acc)
        return acc.violations
    prog = tuple((l, r, tuple(tuple(x) for x in lo)) for l, r, lo in witness["program"])
    r, _, _ = check_program(prog)
    if r is None:
        return []
    s = shrink(prog, r[0])
    r2, _, _ = check_program(s)
    return [{"sub": r[0], "sig": "C14/%s:%s" % (r[0], prog_str(s)), "witness": {"program": [list(x) for x in s]},
             "detail": "program: %s\n%s" % (prog_str(s), (r2 or r)[1])}]
