"""C19 -- printing an expression and parsing it back returns the same expression.

Every expression up to a depth bound over the dagrt expression language (tagged identifiers,
arithmetic incl. / // % **, comparisons, logical operators, calls with positional/keyword
arguments, curried calls, subscripts, conditional expressions) is printed with str() and parsed
with the real dagrt.expression.parse: parse must succeed, re-printing must give the same
text, the variable sets must agree and the ring normal forms must be equal (a value difference is
reported only with a concrete valuation).  Backtick-quoted names are checked in every syntactic
position.
"""

import itertools
import json

import pymbolic.primitives as P

from mc import kernel, nf

ID = "C19"
LEVEL = "exploration"
TECHNIQUE = ("bounded exhaustive enumeration of expression trees (depth <= 2 complete, depth 3 over a reduced atom set) "
             "-> str() -> parse(); oracles: re-print equality, variable sets, polynomial normal form with witness valuation")
RULE = ("expressions are tuple-encoded trees over 28 operator forms, generated once each by depth; non-trivial = "
        "expressions with at least one operator whose printed form needed parentheses or contains a tagged identifier; "
        "distinct_outcomes = distinct printed texts")
ASSUMPTIONS = ["Min/Max print as calls and are outside the property's operator list",
               "pymbolic's printer is what str() uses; defects rooted there are reported like any other"]
LEVEL_TEXT = ("All expressions below the depth bound are round-tripped through the real printer and parser; the value clause "
              "is decided by an exact normal form (comparisons/logic/conditionals/subscripts opaque) and confirmed by a "
              "concrete valuation before it is reported.")
LEVEL_NOTE = "Trusted: nf.py; my tuple->pymbolic builder."

V = P.Variable

IDENTS = ["x", "<state>y", "<p>x", "<dt>", "y_1"]
FUNCS = ["f", "<func>f"]
CONSTS = [0, 1, 1.0, -2, 0.5, 1e-12, 1e+20]
CMPS = ["<", "<=", "==", "!=", ">=", ">"]

BIN = ["+", "-", "*", "/", "//", "%", "**", "and", "or"] + ["cmp" + c for c in CMPS]
CALLS = ["call2", "callkw", "callkw2", "curry"]
SUBS = ["sub2", "subsub"]


def build(t):
    k = t[0]
    if k == "v":
        return V(t[1])
    if k == "c":
        if isinstance(t[1], str) and t[1].startswith("complex:"):
            return complex(*[float(x) for x in t[1].split(":")[1:]])
        return t[1]
    if k == "neg":
        return P.Product((-1, build(t[1])))
    if k == "not":
        return P.LogicalNot(build(t[1]))
    if k in ("+", "-", "*", "/", "//", "%", "**", "and", "or") or k.startswith("cmp"):
        a, b = build(t[1]), build(t[2])
        if k == "+":
            return P.Sum((a, b))
        if k == "-":
            return P.Sum((a, P.Product((-1, b))))
        if k == "*":
            return P.Product((a, b))
        if k == "/":
            return P.Quotient(a, b)
        if k == "//":
            return P.FloorDiv(a, b)
        if k == "%":
            return P.Remainder(a, b)
        if k == "**":
            return P.Power(a, b)
        if k == "and":
            return P.LogicalAnd((a, b))
        if k == "or":
            return P.LogicalOr((a, b))
        return P.Comparison(a, k[3:], b)
    if k == "call1":
        return P.Call(V(t[1]), (build(t[2]),))
    if k == "call2":
        return P.Call(V(t[1]), (build(t[2]), build(t[3])))
    if k == "callkw":
        from constantdict import constantdict
        return P.CallWithKwargs(V(t[1]), (build(t[2]),), constantdict({"k": build(t[3])}))
    if k == "callkw2":
        from constantdict import constantdict
        return P.CallWithKwargs(V(t[1]), (), constantdict({"k": build(t[2]), "m": build(t[3])}))
    if k == "curry":
        return P.Call(P.Call(V(t[1]), (build(t[2]),)), (build(t[3]),))
    if k == "sub1":
        return P.Subscript(build(t[1]), build(t[2]))
    if k == "sub2":
        return P.Subscript(build(t[1]), (build(t[2]), build(t[3])))
    if k == "subsub":
        return P.Subscript(P.Subscript(build(t[1]), build(t[2])), build(t[3]))
    if k == "if":
        return P.If(build(t[1]), build(t[2]), build(t[3]))
    raise ValueError(t)


def shape(t):
    k = t[0]
    if k in ("v", "c"):
        if k == "c" and isinstance(t[1], (int, float)) and not isinstance(t[1], bool) and t[1] < 0:
            return "NEG"
        if k == "c" and isinstance(t[1], str):
            return "COMPLEX"
        return "A"
    args = [shape(x) for x in t[1:] if isinstance(x, (tuple, list))]
    if k.startswith("cmp"):
        k = "cmp"
    return "%s(%s)" % (k, ",".join(args))


def atoms(full=True):
    if full:
        return [("v", n) for n in IDENTS] + [("c", c) for c in CONSTS]
    return [("v", "x"), ("v", "<p>x"), ("c", 1), ("c", -2)]


def ops_over(xs, ys, funcs, one_sided=None):
    """all operator forms with children from xs (first) and ys (others)"""
    for x in xs:
        yield ("neg", x)
        yield ("not", x)
        for f in funcs:
            yield ("call1", f, x)
        yield ("sub1", ("v", "x"), x)
    for x, y in itertools.product(xs, ys):
        for b in BIN:
            yield (b, x, y)
        for c in CALLS:
            yield (c, funcs[0], x, y)
        yield ("sub2", ("v", "x"), x, y)
        yield ("subsub", ("v", "x"), x, y)
        yield ("sub1", x, y)
        yield ("if", x, y, ("c", 1))
        yield ("if", ("v", "x"), x, y)
        yield ("if", ("cmp>", ("v", "x"), ("c", 0)), x, y)


def gen(tier, part):
    A = atoms(True)
    R = atoms(False)
    if part == "d1":
        for a in A:
            yield a
        yield ("c", "complex:0.0:1.5")
        # the Boolean constants, alone and where a truth value is expected (arithmetic on them is not in the language)
        for b in (("c", True), ("c", False)):
            x = ("v", "x")
            yield b
            yield ("not", b)
            yield ("and", b, x)
            yield ("or", x, b)
            yield ("if", b, x, ("v", "<p>x"))
            yield ("call1", "f", b)
            yield ("callkw", "f", x, b)
            yield ("cmp==", x, b)
        yield from ops_over(A, A, FUNCS)
    elif part == "d2a":
        L1 = list(ops_over(A, A if tier == "thorough" else R, FUNCS[:1]))
        for t in ops_over(L1, R, FUNCS[:1]):
            yield t
    elif part == "d2b":
        L1 = list(ops_over(A, A if tier == "thorough" else R, FUNCS[:1]))
        for t in ops_over(R, L1, FUNCS[:1]):
            yield t
    elif part == "d2c":
        L1r = list(ops_over(R[:2], R[1:3], FUNCS[:1]))
        for t in ops_over(L1r, L1r, FUNCS[:1]):
            yield t
    elif part == "d3":
        X = [("v", "x"), ("c", 1)]
        L1 = list(ops_over(X, X, FUNCS[:1]))
        L2 = list(ops_over(L1, X, FUNCS[:1])) + list(ops_over(X, L1, FUNCS[:1]))
        for t in ops_over(L2, X, FUNCS[:1]):
            yield t
        for t in ops_over(X, L2, FUNCS[:1]):
            yield t


def parts(tier):
    return ["d1", "d2a", "d2b", "d2c"] + (["d3"] if tier == "thorough" else [])


def bounds(tier):
    return {"depth1": "all operator forms over 11 atoms (+ one complex constant; + the Boolean constants alone and in 7 "
                      "truth-value positions)",
            "depth2": "one child depth-1 (over %s atoms), other child from 4 atoms; plus both children depth-1 over "
                      "reduced atoms" % ("all 11" if tier == "thorough" else "11 x 4"),
            "depth3": "over atoms {x, 1}: one child depth-2, other atom (thorough only)" if tier == "thorough" else "-",
            "backticks": "every pool name x 8 syntactic positions; every depth-1 expression with all identifiers quoted"}


def shards(tier, seed):
    out = [{"part": "backtick"}]
    m = 32 if tier == "quick" else 128
    for p in parts(tier):
        mm = 1 if p == "d1" else m
        for r in range(mm):
            out.append({"part": p, "tier": tier, "mod": mm, "rem": r})
    return out


def twin(t):
    """same tree with every integral numeric constant spelled in the other type (1 <-> 1.0): equal in Python,
    different expressions.  Parsing the twin first makes a process-wide parse cache observable inside one case."""
    if t[0] == "c":
        v = t[1]
        if isinstance(v, bool) or isinstance(v, str):
            return t
        if isinstance(v, int):
            return ("c", float(v))
        if isinstance(v, float) and v == int(v) and abs(v) < 1e15:
            return ("c", int(v))
        return t
    return tuple(twin(x) if isinstance(x, tuple) else x for x in t)


def check(t):
    """returns (sub, detail) or None, printed text"""
    from dagrt.expression import parse
    from dagrt.utils import get_variables
    e = build(t)
    tw = twin(t)
    if tw != t:
        try:
            parse(str(build(tw)))      # history: the equal-valued spelling has been parsed before
        except Exception:
            pass
    try:
        s = str(e)
    except Exception as ex:
        return ("print-fails(%s)" % type(ex).__name__, "str() raised %s" % ex), None
    try:
        with kernel.time_limit(120):
            p = parse(s)
    except kernel.Budget:
        return ("budget", "parse(%r) did not return within 120 s" % s), s
    except Exception as ex:
        return ("parse-fails(%s)" % type(ex).__name__, "parse(%r): %s: %s" % (s, type(ex).__name__, str(ex)[:200])), s
    try:
        s2 = str(p)
    except Exception as ex:
        return ("print-fails(%s)" % type(ex).__name__, "str(parse(%r)) raised %s" % (s, ex)), s
    if s2 != s:
        return ("reprint-differs", "%r parses to %r which prints as %r" % (s, p, s2)), s
    try:
        for fs in (False, True):
            if get_variables(e, include_function_symbols=fs) != get_variables(p, include_function_symbols=fs):
                return ("variables-differ", "%r: variables %s before, %s after parsing (function symbols=%s)" % (
                    s, sorted(get_variables(e, include_function_symbols=fs)),
                    sorted(get_variables(p, include_function_symbols=fs)), fs)), s
    except Exception as ex:
        return ("variables-differ", "get_variables raised %s on %r" % (ex, s)), s
    try:
        if not nf.same(e, p):
            w = nf.witness(e, p)
            if w is not None:
                return ("value-differs", "%r is read back as %r; they differ at %s" % (
                    s, p, json.dumps(w, default=repr))), s
    except TypeError as ex:
        return ("harness-nf", "%s on %r" % (ex, s)), s
    return None, s


def smallest_failing_subtree(t, sub):
    def fails(x):
        r, _ = check(x)
        return r is not None and r[0] == sub
    changed = True
    while changed:
        changed = False
        for c in [c for c in t[1:] if isinstance(c, tuple)]:
            if c[0] not in ("v", "c") and fails(c):
                t = c
                changed = True
                break
    return t


def shrink(t, sub):
    """smallest failing subtree; then non-atomic children replaced by the atom x where the failure persists"""
    def fails(x):
        r, _ = check(x)
        return r is not None and r[0] == sub
    t = smallest_failing_subtree(t, sub)
    changed = True
    while changed:
        changed = False
        for path in list(_paths(t)):
            if not path:
                continue
            sub_t = _get(t, path)
            if sub_t in (("v", "x"), ("v", "y_1"), ("v", "<p>x")) or path[-1] == 0 or not isinstance(sub_t, tuple) or \
                    sub_t[0] not in ("v", "c", "neg", "not", "if", "sub1", "sub2", "subsub", "call1", "call2",
                                     "callkw", "callkw2", "curry") + tuple(BIN):
                continue
            done = False
            for child in [c for c in sub_t[1:] if isinstance(c, tuple)]:
                cand = _set(t, path, child)        # hoist a child over its parent
                if fails(cand):
                    t = cand
                    changed = done = True
                    break
            if done:
                break
            for rep in (("v", "x"), ("v", "y_1"), ("v", "<p>x")):
                if sub_t == rep:
                    break            # already an accepted plain atom
                cand = _set(t, path, rep)
                if fails(cand):
                    t = cand
                    changed = done = True
                    break
            if done:
                break
    return t


def _paths(t, prefix=()):
    yield prefix
    for i, c in enumerate(t[1:], 1):
        if isinstance(c, tuple):
            yield from _paths(c, prefix + (i,))


def _get(t, path):
    for i in path:
        t = t[i]
    return t


def _set(t, path, v):
    if not path:
        return v
    i = path[0]
    return t[:i] + (_set(t[i], path[1:], v),) + t[i + 1:]


def totuple(t):
    return tuple(totuple(x) if isinstance(x, (list, tuple)) else x for x in t)


_KNOWN = []


def fresh_check(t):
    """check(t) in a fresh interpreter process: parse() must be a function of its argument; if a case only fails
    after other parses of the same process (a cache shared between calls), the witness has to fail from a clean
    history too (the int/float twin inside check() supplies the one-step history the case itself needs)"""
    import subprocess
    import sys
    code = ("import sys, json; sys.path.insert(0, %r); sys.path.insert(0, %r); from mc import kernel; "
            "kernel.own_uninitialised_memory(); from mc.checks import c19; "
            "r, s = c19.check(c19.totuple(json.loads(%r))); print('@@' + json.dumps(r))" % (
                kernel.REPO, kernel.VERIF, json.dumps(t)))
    p = subprocess.run([sys.executable, "-c", code], capture_output=True, text=True, timeout=600,
                       env=dict(__import__("os").environ, PYTHONHASHSEED="0"))
    lines = [ln for ln in p.stdout.splitlines() if ln.startswith("@@")]
    if not lines:
        return None
    r = json.loads(lines[-1][2:])
    return tuple(r) if r else None


def violation(t, r):
    """returns a violation record whose witness fails from a clean process, or None"""
    sub = r[0]
    s = shrink(t, sub)
    if not _KNOWN:
        _KNOWN.append(kernel.load_known()[0])
    if (ID, "C19/%s:%s" % (sub, shape(s))) in _KNOWN[0]:
        # a listed finding: deterministic, no clean-process confirmation needed (the kernel prints it as KNOWN-FINDING)
        r2, _ = check(s)
        return {"sub": sub, "sig": "C19/%s:%s" % (sub, shape(s)), "witness": {"tree": s}, "detail": (r2 or r)[1]}
    for cand in (s, t):
        fr = fresh_check(cand)
        if fr is not None and fr[0] == sub:
            return {"sub": sub, "sig": "C19/%s:%s" % (sub, shape(cand)), "witness": {"tree": cand}, "detail": fr[1]}
    return None


BT_CONTEXTS = ["%s", "%s + 1", "f(%s)", "f(1, k=%s)", "%s(1)", "x[%s]", "%s[0]", "(1 if %s else 2)"]
BT_NAMES = IDENTS + ["<func>f", "<p>a:b", "<cond>", "a0_", "<ret_state>y"]


def quote_tree(t):
    k = t[0]
    if k == "v":
        return ("v", "`%s`" % t[1])
    if k == "c":
        return t
    out = [k]
    for i, c in enumerate(t[1:], 1):
        if isinstance(c, tuple):
            out.append(quote_tree(c))
        elif isinstance(c, str) and k in ("call1", "call2", "callkw", "callkw2", "curry") and i == 1:
            out.append("`%s`" % c)
        else:
            out.append(c)
    return tuple(out)


def check_quoted(t):
    """every identifier of t backtick-quoted: must parse to the plain expression"""
    from dagrt.expression import parse
    r, s = check(t)
    if r is not None:
        return None          # the plain round trip already fails (reported there)
    q = str(build(quote_tree(t)))
    try:
        p = parse(q)
    except Exception as ex:
        return ("backtick", "parse(%r) raised %s: %s" % (q, type(ex).__name__, str(ex)[:150]))
    if str(p) != s:
        return ("backtick", "parse(%r) prints as %r, expected %r" % (q, str(p), s))
    return None


def check_backticks(acc):
    from dagrt.expression import parse
    for t in gen("quick", "d1"):
        if t[0] in ("v", "c"):
            continue
        acc.evaluations += 1
        r = check_quoted(t)
        if r is not None:
            sh = shape(t)
            if not any(v["sig"] == "C19/backtick:quoted " + sh for v in acc.violations):
                acc.violation("backtick", "C19/backtick:quoted " + sh, {"quoted_tree": t}, r[1])
        else:
            acc.nontrivial += 1
    import re
    lex = re.compile(r"^[<>:a-zA-Z0-9_]*$")
    for name in BT_NAMES:
        if not lex.match(name):
            continue
        for ctx in BT_CONTEXTS:
            acc.evaluations += 1
            quoted = ctx % ("`%s`" % name)
            try:
                got = parse(quoted)
            except Exception as ex:
                acc.violation("backtick", "C19/backtick:%s" % ctx, {"backtick": [name, ctx]},
                              "parse(%r) raised %s: %s" % (quoted, type(ex).__name__, ex))
                continue
            # expected: the same tree built with the plain variable
            import pymbolic.primitives as PP
            vs, fs = nf.variables(got)
            names = set(vs) | set(fs)
            acc.outcome(quoted)
            if name not in names or any("`" in n for n in names):
                acc.violation("backtick", "C19/backtick:%s" % ctx, {"backtick": [name, ctx]},
                              "parse(%r) = %r: the quoted name does not denote the variable %r" % (
                                  quoted, got, name))
            else:
                acc.nontrivial += 1


def run_shard(desc, acc):
    if desc["part"] == "backtick":
        check_backticks(acc)
        return
    seen_viol = {}
    for i, t in enumerate(gen(desc["tier"], desc["part"])):
        if i % desc["mod"] != desc["rem"]:
            continue
        if (i & 0xfff) == 0 and acc.out_of_time():
            acc.cap("time cap in shard %r" % desc)
            return
        acc.evaluations += 1
        r, s = check(t)
        if r is not None:
            # shrink lazily: one full shrink per distinct (sub-oracle, shape of the smallest failing subtree)
            s1 = smallest_failing_subtree(t, r[0])
            key = (r[0], shape(s1))
            if key in seen_viol or len(seen_viol) >= 24:
                # 24 distinct (sub-oracle, shape) records per shard are shrunk and confirmed from a clean process;
                # further failures are counted
                acc.count_violation(r[0])
                continue
            v = violation(s1, r) or violation(t, r)
            if v is None:
                seen_viol[key] = None
                acc.count("violations_not_reproducible_from_a_clean_process")
                continue
            seen_viol[key] = v["sig"]
            acc.viol_counts[r[0]] = acc.viol_counts.get(r[0], 0) + 1
            if v["sig"] not in [x["sig"] for x in acc.violations]:
                acc.violations.append(v)
            continue
        if s is not None:
            acc.outcome(s)
            if "(" in s or "<" in s:
                acc.nontrivial += 1
            if i % 20000 == 0:
                acc.sample({"expression": s})


def replay(witness):
    if "quoted_tree" in witness:
        t = totuple(witness["quoted_tree"])
        r = check_quoted(t)
        return [] if r is None else [{"sub": "backtick", "sig": "C19/backtick:quoted " + shape(t),
                                      "witness": witness, "detail": r[1]}]
    if "backtick" in witness:
        acc = kernel.Acc()
        check_backticks(acc)
        return [v for v in acc.violations if v["witness"]["backtick"][1] == witness["backtick"][1]][:1]
    t = totuple(witness["tree"])
    r = fresh_check(t)
    if r is None:
        return []
    return [{"sub": r[0], "sig": "C19/%s:%s" % (r[0], shape(t)), "witness": {"tree": t}, "detail": r[1]}]
