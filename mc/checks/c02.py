"""C02 -- recorded dependencies make every admissible schedule equal to program order.

For every builder program of one phase (<= k alphabet items) the statements emitted by the
real CodeBuilder are executed in EVERY order that respects the recorded depends_on edges
(depth-first over the lattice of down-sets, memoised on (executed set, store, events)),
each statement through the real interpreter methods; every terminal state must equal the
result of carrying out the builder calls in the order written (R-prog).
Also: names handed out by fresh_var_name()/if_ never collide with user names.
"""

import copy
import json
import re

from mc import kernel, prog
from mc.checks import c01
from mc.refexpr import Undefined, canon

ID = "C02"
LEVEL = "model_checking"
TECHNIQUE = ("bounded exhaustive enumeration of builder programs x ALL linear extensions of the emitted dependency "
             "graph (explicit-state DFS over down-sets with memoisation), each extension executed on the real "
             "interpreter methods and compared with a program-order reference")
RULE = ("every body with <= k alphabet items is generated once; for each, every schedule respecting depends_on is "
        "explored (states = distinct (executed set, store, events), transitions = statement executions); "
        "non-trivial = the program has more than one linear extension; distinct_outcomes = distinct reference outcomes")
ASSUMPTIONS = [
    "user functions are pure (as the builder assumes); only events and variable values are compared",
    "a step cut short by fail/switch/raise is compared on events, kind and persistent variables only",
]
LEVEL_TEXT = ("All schedules admitted by the recorded dependency edges are enumerated for every program in a bounded "
              "space and executed statement by statement on the real interpreter; every terminal state is compared with "
              "program order. Complete for the stated k unless a per-program state cap is reported.")
LEVEL_NOTE = ("Trusted: reference executor, the 30-line schedule driver (mirrors ExecutionController's pop/evaluate/"
              "dispatch but takes the order from the explorer). Programs above k items are outside the space.")

A = c01.A

EXTRA_ATOMS = {
    "r[i]=n..": [A("<p>r[i]", "5", [("i", "<p>n - 2", "3")])],
    "yield r[n-1]": [["Y", "<p>r[<p>n - 1]", "y", "<t>", "sub"]],
    "yield@t+n": [["Y", "<p>b", "y", "<t> + <p>n", "tn"]],
    "w=a;w+=1": [A("w", "<p>a"), A("w", "w + 1"), A("<p>b", "w")],
    "u=b": [A("u", "<p>b")],
    "a=u*2": [A("<p>a", "u * 2")],
    "r[i]=r[i]+u": [A("<p>r[i]", "<p>r[i] + u", [("i", "0", "3")])],
    "fresh": [["FRESH", "temp", "FV1"], A("FV1", "<p>a + 100"), A("<p>b", "FV1")],
    "fresh2": [["FRESH", "temp", "FV2"], A("FV2", "<p>b + 200"), A("<p>a", "FV2")],
    # names requested up front, before any of them occurs in a statement; the second prefix is what the first request
    # returns when `temp` is taken
    "fresh-upfront": [["FRESH", "temp", "FV3"], ["FRESH", "temp_0", "FV4"], ["FRESH", "temp", "FV5"],
                      A("FV3", "<p>a + 100"), A("FV4", "<p>b + 200"), A("FV5", "3"), A("<p>b", "FV3 + FV4 + FV5")],
    "temp=7": [A("temp", "7"), A("<p>b", "temp")],
    "temp_0=8": [A("temp_0", "8"), A("<p>a", "temp_0")],
    "r[temp]": [A("<p>r[temp]", "temp + 20", [("temp", "0", "<p>n")])],
    "r[i]=..temp_0": [A("temp_0", "2"), A("<p>r[i]", "30", [("i", "0", "temp_0")])],
    "cond-user": [A("`<cond>`", "<p>a > 0"), A("<p>b", "(5 if `<cond>` else 6)")],
}

ATOMS = dict(c01.ATOMS)
ATOMS.update(EXTRA_ATOMS)
CONDS = c01.CONDS

MID_ATOMS = ["a+=1", "b=2a", "u=a+y", "b=u", "u=b", "a=u*2", "a=ifexp", "r[i]=..n", "r[i]=n..", "n=0", "n=2",
             "a=r[1]", "r[n-1]=a", "r[1]=b", "b=r[n-1]+r[0]", "r[i]=r[i]+u", "u=f(a)", "b=k(a,y=b)",
             "yield a", "yield u", "yield r[n-1]", "yield@t+n", "fail", "switch aux", "raise1", "t+=dt",
             "fresh", "fresh-upfront", "temp=7", "w=a;w+=1"]
MID_CONDS = ["s:a>1", "s3:a<b", "e3:y==0"]

STATE_CAP = 20000


def bounds(tier):
    if tier == "quick":
        return {"k_full_alphabet": 2, "k_mid_alphabet": 3, "atoms": len(ATOMS), "mid_atoms": len(MID_ATOMS),
                "conds": len(CONDS), "inputs": 2, "per_program_state_cap": STATE_CAP,
                "control_skeletons": "all bodies with 4-5 items over 3 atoms x 2 conditions"}
    return {"k_full_alphabet": 3, "k_mid_alphabet": 4, "atoms": len(ATOMS), "mid_atoms_k4": 14,
            "conds": len(CONDS), "inputs": 2, "per_program_state_cap": STATE_CAP}


CORE4 = ["a+=1", "b=2a", "u=a+y", "b=u", "r[i]=..n", "n=0", "a=r[1]", "r[n-1]=a", "yield a", "fail",
         "switch aux", "t+=dt", "fresh", "temp=7"]


def expand(shape):
    body = []
    for n in shape:
        if isinstance(n, str):
            body.extend(ATOMS[n])
        else:
            body.append(["IF", CONDS[n[1]], expand(n[2]), expand(n[3]) if n[3] is not None else None])
    return body


def shards(tier, seed):
    out = []
    nsh = 64 if tier == "quick" else 256
    plan = [("full", 2), ("mid", 3), ("ctl3", 5)] if tier == "quick" else [("full", 3), ("core4", 4), ("ctl4", 5)]
    for space, k in plan:
        for r in range(nsh):
            out.append({"space": space, "k": k, "mod": nsh, "rem": r})
    return out


def space_iter(space, k):
    atoms = {"full": list(ATOMS), "mid": MID_ATOMS, "core4": CORE4,
             "ctl3": ["a+=1", "b=2a", "yield a"], "ctl4": ["a+=1", "b=2a", "yield a", "fail"]}[space]
    conds = list(CONDS) if space == "full" else MID_CONDS
    lo = 1
    if space.startswith("ctl"):
        conds = ["s:a>1", "e3:y==0"]
        lo = 4
    for kk in range(lo, k + 1):
        yield from c01.gen_bodies(kk, atoms, conds)


def initial_store(y):
    import numpy as np
    return {"<p>a": y, "<p>b": 1, "<p>n": 3, "<p>c": 0, "<p>r": np.array([1.0, 2.0, 3.0]),
            "<state>y": y, "<t>": 0, "<dt>": 1}


INPUT_YS = [0, 2]

IDENT = re.compile(r"`([^`]*)`|((?:<[a-z_]+>)?[A-Za-z_][A-Za-z0-9_]*)")


def names_in(op):
    """Every identifier a user op mentions (any position), independent of dagrt."""
    out = set()

    def scan(x):
        if isinstance(x, str):
            for m in IDENT.finditer(x):
                out.add(m.group(1) if m.group(1) is not None else m.group(2))
        elif isinstance(x, list):
            for y in x:
                scan(y)
    k = op[0]
    if k == "A":
        scan(op[1]); scan(op[2]); scan(op[3])
    elif k == "IF":
        scan(op[1][1:])
    elif k == "Y":
        scan(op[1]); scan(op[3])
    return out - {"if", "else", "and", "or", "not", "py", "inf"}


# ---- building with FRESH support ----------------------------------------------------

def subst(x, env):
    if isinstance(x, str):
        for a, n in env.items():
            x = re.sub(r"\b%s\b" % a, n, x)
        return x
    if isinstance(x, list):
        return [subst(y, env) for y in x]
    return x


class OutOfDomain(Exception):
    """The user program re-uses a name the builder handed out earlier (nothing the builder can prevent)."""


def drive(cb, body, env, used, handed, problems):
    """Like prog.drive_builder but supports FRESH and records user names / handed-out names."""
    for op in body:
        k = op[0]
        if k != "FRESH" and names_in(op) & handed:
            raise OutOfDomain()
        if k == "FRESH":
            if op[2] in env:
                raise OutOfDomain()     # harness alias declared twice (use the fresh2 item instead)
            name = cb.fresh_var_name(op[1])
            if name in used or name in handed:
                problems.append("fresh_var_name(%r) returned %r which is already in use (user names so far: %s)"
                                % (op[1], name, sorted(used)))
            handed.add(name)
            env[op[2]] = name
        elif k == "IF":
            sop = subst(op, env)
            used |= names_in(sop)
            n_before = len(cb.statements)
            spec = sop[1]
            if spec[0] == "s":
                ctx = cb.if_(spec[1])
            elif spec[0] == "e":
                ctx = cb.if_(prog.parse(spec[1]))
            elif spec[0] == "s3":
                ctx = cb.if_(spec[1], spec[2], spec[3])
            else:
                ctx = cb.if_(prog.parse(spec[1]), spec[2], prog.parse(spec[3]))
            with ctx:
                flag = cb.statements[n_before].lhs.name
                if flag in used or flag in handed:
                    problems.append("if_ flag %r collides with a name already in use" % flag)
                handed.add(flag)
                drive(cb, op[2], env, used, handed, problems)
            if op[3] is not None:
                with cb.else_():
                    drive(cb, op[3], env, used, handed, problems)
        else:
            sop = subst(op, env)
            used |= names_in(sop)
            prog.drive_builder(cb, [sop], cb.name)


def build(body):
    from dagrt.language import CodeBuilder
    env, used, handed, problems = {}, set(), set(), []
    with CodeBuilder("main") as cb:
        drive(cb, body, env, used, handed, problems)
        # a phase taken from the builder is a snapshot: later builder calls must not leak into it
        snap = cb.as_execution_phase("main")
        ids_before = sorted(s.id for s in snap.statements)
        n_before = len(cb.statements)
        cb.assign("verif_after_snapshot", "1")
        if sorted(s.id for s in snap.statements) != ids_before:
            problems.append("SNAPSHOT: a phase obtained from as_execution_phase() changed when the builder was used "
                            "again (%d statements -> %d)" % (len(ids_before), len(list(snap.statements))))
        del cb.statements[n_before:]
    cb.verif_flags = handed - set(env.values())
    return cb, env, problems


# ---- reference ----------------------------------------------------------------------------

def reference(body, y):
    """R-prog on the written order.  FRESH aliases are ordinary (new) variables there."""
    store = initial_store(y)
    st = prog.RefStep(store, c01.FUNCS, "main")
    ref_body = [op for op in _strip_fresh(body)]
    try:
        kind, arg = st.run(ref_body)
    except Undefined:
        raise
    except Exception as e:
        kind, arg = "crash", type(e).__name__
    return outcome(kind, arg, st.events, store, {})


def _strip_fresh(body):
    out = []
    for op in body:
        if op[0] == "FRESH":
            continue
        if op[0] == "IF":
            out.append(["IF", op[1], _strip_fresh(op[2]), _strip_fresh(op[3]) if op[3] is not None else None])
        else:
            out.append(op)
    return out


def outcome(kind, arg, events, store, rename):
    if kind == "completed":
        vars_ = {rename.get(k, k): canon(v) for k, v in store.items()}
    else:
        vars_ = {k: canon(v) for k, v in store.items() if prog.is_persistent(k)}
    return json.dumps({"kind": [kind, arg], "events": events, "vars": dict(sorted(vars_.items()))},
                      sort_keys=True)


# ---- all schedules on the real statements -----------------------------------------------

def explore_schedules(cb, env, y, acc=None):
    """Returns (set of terminal outcomes, states, transitions, capped, n_linear_ext_gt1)."""
    from dagrt.exec_numpy import FailStepException, NumpyInterpreter, TransitionEvent
    from dagrt.language import DAGCode, ExecutionPhase
    stmts = list(cb.statements)
    phase = ExecutionPhase(name="main", next_phase="main", statements=stmts)
    dag = DAGCode({"main": phase}, "main")
    interp = NumpyInterpreter(dag, c01.FUNCS)
    ctx = interp.context
    stores = prog.VarStores(interp)
    rename = {v: k for k, v in env.items()}
    ids = [s.id for s in stmts]
    deps = {s.id: frozenset(s.depends_on) for s in stmts}
    by_id = {s.id: s for s in stmts}
    flag_names = cb.verif_flags

    outcomes = {}
    seen = set()
    counters = {"states": 0, "transitions": 0, "capped": False, "branching": False}

    def snap():
        return stores.snap()

    def restore(s):
        stores.restore(s)

    def final(kind, arg, events, sched):
        store = {k: v for k, v in stores.merged().items() if k not in flag_names}
        o = outcome(kind, arg, events, store, rename)
        if o not in outcomes:
            outcomes[o] = list(sched)

    def rec(executed, state, events, sched):
        key = (executed, json.dumps([{k: canon(v) for k, v in sorted(m.items())} for m in state], sort_keys=True),
               json.dumps(events))
        if key in seen:
            return
        if len(seen) >= STATE_CAP:
            counters["capped"] = True
            return
        seen.add(key)
        counters["states"] += 1
        enabled = [i for i in ids if i not in executed and deps[i] <= executed]
        if not enabled:
            restore(state)
            final("completed", None, events, sched)
            return
        if len(enabled) > 1:
            counters["branching"] = True
        for sid in enabled:
            restore(state)
            stmt = by_id[sid]
            counters["transitions"] += 1
            ev2 = events
            try:
                if interp.evaluate_condition(stmt):
                    res = getattr(interp, stmt.exec_method)(stmt)
                    if res is not None and res[0] is not None:
                        e = res[0]
                        ev2 = events + [["state", canon(e.t), e.time_id, e.component_id,
                                         canon(e.state_component)]]
            except FailStepException:
                final("failed", None, events, sched + [sid])
                continue
            except TransitionEvent as te:
                final("switch", te.next_phase, events, sched + [sid])
                continue
            except Exception as e:
                if type(e).__name__ in prog.ERRORS:
                    final("raise", type(e).__name__, events, sched + [sid])
                else:
                    final("crash", type(e).__name__, events, sched + [sid])
                continue
            rec(executed | {sid}, snap(), ev2, sched + [sid])

    for k, v in initial_store(y).items():
        ctx[k] = v
    rec(frozenset(), snap(), [], [])
    return outcomes, counters


def check_body(shape, acc=None):
    body = expand(shape)
    refs = []
    try:
        for y in INPUT_YS:
            refs.append(reference(body, y))
    except Undefined:
        return "excluded", None, None
    fails = []
    try:
        cb, env, problems = build(body)
    except OutOfDomain:
        return "excluded", None, None
    except Exception as e:
        return [("builder-raises", "%s: %s" % (type(e).__name__, e))], refs, False
    for p in problems:
        fails.append(("phase-aliases-builder" if p.startswith("SNAPSHOT") else "fresh-name-collision", p))
    # the reference treats aliases as variables; a swapped RESTART becomes switch main
    branching = False
    for y, ref in zip(INPUT_YS, refs):
        outs, ctr = explore_schedules(cb, env, y)
        if acc is not None:
            acc.states += ctr["states"]
            acc.transitions += ctr["transitions"]
            acc.traces += len(outs)
            if ctr["capped"]:
                acc.cap("per-program state cap %d hit" % STATE_CAP)
        branching |= ctr["branching"]
        bad = [(o, s) for o, s in outs.items() if o != ref]
        if bad and not any(f[0] == "schedule-outcome" for f in fails):
            o, s = bad[0]
            fails.append(("schedule-outcome",
                          "y=%s schedule %s gives %s; program order gives %s; statements: %s" % (
                              y, s, o[:500], ref[:500],
                              "; ".join("%s: %s <- deps %s" % (st.id, st, sorted(st.depends_on))
                                        for st in cb.statements)[:1500])))
    return fails, refs, branching


def shrink_shape(shape, sub):
    def fails(s):
        r, _, _ = check_body(s)
        return r != "excluded" and any(f[0] == sub for f in r)
    cur = shape
    while True:
        for c in _cands(cur):
            if c and fails(c):
                cur = c
                break
        else:
            return cur


def _cands(s):
    for i in range(len(s)):
        yield s[:i] + s[i + 1:]
        n = s[i]
        if not isinstance(n, str):
            yield s[:i] + n[2] + s[i + 1:]
            if n[3] is not None:
                yield s[:i] + n[3] + s[i + 1:]
                yield s[:i] + [["if", n[1], n[2], None]] + s[i + 1:]
            for c in _cands(n[2]):
                if c:
                    yield s[:i] + [["if", n[1], c, n[3]]] + s[i + 1:]
            if n[3] is not None:
                for c in _cands(n[3]):
                    if c:
                        yield s[:i] + [["if", n[1], n[2], c]] + s[i + 1:]


def violation_records(shape, fails):
    out = []
    for sub, detail in fails:
        s = shrink_shape(shape, sub)
        r, _, _ = check_body(s)
        dd = [f for f in (r if r != "excluded" else []) if f[0] == sub]
        if not dd:
            s, dd = shape, [(sub, detail)]
        d = dd[0][1]
        out.append({"sub": sub, "sig": "C02/%s:%s" % (sub, c01.shape_str(s)),
                    "witness": {"shape": s, "found_as": c01.shape_str(shape)},
                    "detail": "body: %s\n%s" % (c01.shape_str(s), d)})
    return out


def run_shard(desc, acc):
    mod, rem = desc["mod"], desc["rem"]
    for i, shape in enumerate(space_iter(desc["space"], desc["k"])):
        if i % mod != rem:
            continue
        if acc.out_of_time():
            acc.cap("time cap in shard %r" % desc)
            return
        acc.evaluations += 1
        r, refs, branching = check_body(shape, acc)
        if r == "excluded":
            acc.excluded += 1
            continue
        acc.outcome(json.dumps(refs))
        if branching:
            acc.nontrivial += 1
        if r:
            todo = [f for f in r if acc.want_violation(f[0])]
            for f in r:
                if f not in todo:
                    acc.count_violation(f[0])
            for v in violation_records(shape, todo):
                acc.violation(v["sub"], v["sig"], v["witness"], v["detail"])
        elif acc.evaluations % 300 == 1:
            acc.sample({"body": c01.shape_str(shape), "reference_outcome_y0": json.loads(refs[0])})


def replay(witness):
    shape = witness["shape"]
    r, _, _ = check_body(shape)
    if r == "excluded" or not r:
        return []
    return violation_records(shape, r)
