"""C07 -- statement-rewriting passes preserve meaning and never capture names.

Structured phases built from <= k hand-written statements over an expression alphabet (nested calls,
calls with keyword arguments, conditional expressions plain / nested / containing calls / inside call
arguments, self-dependent assignments, two assignees that are also arguments, guards, loops, yields with
calls) and over variable/statement names that resemble the generated ones are rewritten by each of the
four real passes alone and in the order the Fortran generator uses.  A tree-walking reference executor
(value mode, logging uninterpreted functions) runs the phase before and after, under every valuation
of the guard atoms and two numeric valuations.
"""

import itertools
import json

import pymbolic.primitives as P

from mc import kernel
from mc.nf import FuncVal
from mc.refexpr import Evaluator, Undefined

ID = "C07"
LEVEL = "exploration"
TECHNIQUE = ("bounded exhaustive enumeration of structured phases (statement templates x naming schemes x guards x loops) x "
             "5 pass configurations x all guard valuations; before/after comparison on a reference tree executor with "
             "logging uninterpreted functions")
RULE = ("phases = sequences of <= k statements, each = (template, naming scheme, guard, loop, AST form); each phase x 5 "
        "pass configurations x valuations; non-trivial = (phase, configuration) pairs in which the pass changed the tree; "
        "distinct_outcomes = distinct serialised rewritten trees")
ASSUMPTIONS = ["functions are uninterpreted (hashed) and logged; call order is not compared, only the multiset",
               "a leaf statement's own condition is honoured by the reference executor (top-to-bottom semantics)"]
LEVEL_TEXT = ("Every phase in the bounded space is rewritten by the real passes and executed before/after by an independent "
              "tree walker under all guard valuations; final values of all original variables, the call multiset, freshness "
              "of introduced names/ids, guard inheritance and use-before-definition are checked.")
LEVEL_NOTE = "Trusted: the 80-line value-mode tree executor and mc/refexpr.py."

V = P.Variable


def call(f, *a, **k):
    if k:
        from constantdict import constantdict
        return P.CallWithKwargs(V(f), tuple(a), constantdict(k))
    return P.Call(V(f), tuple(a))


def gt0(e):
    return P.Comparison(e, ">", 0)


NAMINGS = {
    # j: the counter of a loop whose body does not mention it (a statement repeated n times)
    "plain": {"x": "x", "y": "y", "a": "a", "b": "b", "c": "c", "d": "d", "r": "r", "j": "j"},
    "generated": {"x": "tmp", "y": "tmp_0", "a": "ifthenelse_result", "b": "temp_x", "c": "temp_c",
                  "d": "<cond>ifthenelse_cond", "r": "temp_r", "j": "tmp_1"},
    "tagged": {"x": "<p>a", "y": "<state>y", "a": "temp__p_a", "b": "temp__state_y", "c": "<p>c", "d": "tmp_1",
               "r": "<p>r", "j": "ifthenelse_result"},
}


def templates(n):
    """statement templates; n = naming dict. returns {name: (kind, fields)}"""
    x, y, a, b, c, d, r = [V(n[k]) for k in "xyabcdr"]
    T = {}
    T["x=f(g(y))"] = ("assign", n["x"], None, call("<func>f", call("<func>g", y)))
    T["x=1+f(g(y))"] = ("assign", n["x"], None, P.Sum((1, call("<func>f", call("<func>g", y)))))
    T["x=f(y,k=g(a))"] = ("assign", n["x"], None, call("<func>f", y, k=call("<func>g", a)))
    # two keyword arguments, written in non-alphabetical order
    T["x=f(z=b+1,k=a*2)"] = ("assign", n["x"], None, call("<func>f", z=P.Sum((b, 1)), k=P.Product((a, 2))))
    T["x=f(z=g(b),k=a)stmt"] = ("call", (n["x"],), "<func>f", (), {"z": call("<func>g", b), "k": a})
    T["x=f(y+1,a*2)"] = ("assign", n["x"], None, call("<func>f", P.Sum((y, 1)), P.Product((a, 2))))
    T["x=a?b"] = ("assign", n["x"], None, P.If(gt0(c), a, b))
    T["x=f?g"] = ("assign", n["x"], None, P.If(gt0(c), call("<func>f", a), call("<func>g", b)))
    T["x=if-in-cond"] = ("assign", n["x"], None, P.If(gt0(P.If(gt0(c), a, b)), y, 3))
    T["x=if-in-then"] = ("assign", n["x"], None, P.If(gt0(c), P.If(gt0(d), a, b), y))
    E_ = P.If(gt0(d), a, b)
    T["x=same-if-twice"] = ("assign", n["x"], None, P.If(gt0(c), E_, P.Sum((E_, 1))))
    T["x=same-if-twice2"] = ("assign", n["x"], None, P.Sum((P.If(gt0(c), E_, 7), P.Product((2, E_)))))
    T["r[i]=r[i-1]+r[i]"] = ("assign-loop", n["r"], P.Sum((V("i"), 1)),
                              P.Sum((P.Subscript(r, V("i")), P.Subscript(r, P.Sum((V("i"), 1))))))
    T["x=if-in-else"] = ("assign", n["x"], None, P.If(gt0(c), y, P.If(gt0(d), a, b)))
    T["x=f(a?b)"] = ("assign", n["x"], None, call("<func>f", P.If(gt0(c), a, b)))
    T["x=x+1"] = ("assign", n["x"], None, P.Sum((x, 1)))
    T["x=x+a"] = ("assign", n["x"], None, P.Sum((x, a)))
    T["y=y+b"] = ("assign", n["y"], None, P.Sum((y, b)))
    T["x=x+f(x)"] = ("assign", n["x"], None, P.Sum((x, call("<func>f", x))))
    T["r[1]=r[1]+y"] = ("assign", n["r"], 1, P.Sum((P.Subscript(r, 1), y)))
    T["r[i]=r[i]+i"] = ("assign-loop", n["r"], V("i"), P.Sum((P.Subscript(r, V("i")), V("i"))))
    T["r[i]=f(i)+y"] = ("assign-loop", n["r"], V("i"), P.Sum((call("<func>f", V("i")), y)))
    T["x=f(g(y)) xN"] = ("assign-repeat", n["x"], n["j"], call("<func>f", call("<func>g", y)))
    T["x=a?b xN"] = ("assign-repeat", n["x"], n["j"], P.If(gt0(c), a, b))
    T["x,y=h(x,y)"] = ("call", (n["x"], n["y"]), "<func>h", (x, y), {})
    T["x=f(y,k=a)stmt"] = ("call", (n["x"],), "<func>f", (y,), {"k": a})
    T["x=f(g(y))stmt"] = ("call", (n["x"],), "<func>f", (call("<func>g", y),), {})
    T["yield f(x)@g(y)"] = ("yield", call("<func>f", x), call("<func>g", y))
    T["x=y"] = ("assign", n["x"], None, y)
    T["y=x*2"] = ("assign", n["y"], None, P.Product((x, 2)))
    return T


TEMPLATE_NAMES = list(templates(NAMINGS["plain"]))
GUARDS = ["T", "flag", "not-flag", "cmp", "own"]      # "own": the guard reads the variable the statement writes
IDS = ["tmp", "temp", "ifthenelse_cond", "s0", "ifthenelse_then", "tmp_0"]


def guard_expr(g, own=None):
    if g == "T":
        return True
    if g == "own":
        # x is 3 under numeric valuation 0 and 23 under valuation 1: the guard is false once and true once
        return P.Comparison(V(own), ">", 6) if own is not None else gt0(V("gv"))
    if g == "flag":
        return V("<cond>gf")
    if g == "not-flag":
        return P.LogicalNot(V("<cond>gf"))
    return gt0(V("gv"))


def make_stmt(tname, naming, guard, sid, deps):
    from dagrt.language import Assign, AssignFunctionCall, YieldState
    t = templates(NAMINGS[naming])[tname]
    own = t[1] if t[0] == "assign" and isinstance(t[1], str) else None
    cond = guard_expr(guard, own)
    if t[0] == "assign":
        _, lhs, sub, rhs = t
        return Assign(id=sid, assignee=lhs, assignee_subscript=() if sub is None else (sub,), expression=rhs,
                      condition=cond, depends_on=deps)
    if t[0] == "assign-loop":
        _, lhs, sub, rhs = t
        return Assign(id=sid, assignee=lhs, assignee_subscript=(sub,), expression=rhs, loops=[("i", 0, 2)],
                      condition=cond, depends_on=deps)
    if t[0] == "assign-repeat":
        _, lhs, counter, rhs = t
        return Assign(id=sid, assignee=lhs, assignee_subscript=(), expression=rhs, loops=[(counter, 0, 2)],
                      condition=cond, depends_on=deps)
    if t[0] == "call":
        _, assignees, fid, params, kw = t
        return AssignFunctionCall(id=sid, assignees=assignees, function_id=fid, parameters=params, kw_parameters=kw,
                                  condition=cond, depends_on=deps)
    if t[0] == "yield":
        _, e, tm = t
        return YieldState(id=sid, time_id="tid", time=tm, component_id="comp", expression=e, condition=cond,
                          depends_on=deps)
    raise ValueError(t)


def build_ast(spec, form):
    """spec: list of (template, naming, guard, id). form: 'lowered' (create_ast_from_phase) or 'leaves'
    (a block of leaves that keep their own conditions)"""
    from dagrt.codegen.dag_ast import Block, StatementWrapper, create_ast_from_phase
    from dagrt.language import DAGCode, ExecutionPhase
    stmts = []
    prev = []
    for tname, naming, guard, sid in spec:
        stmts.append(make_stmt(tname, naming, guard, sid, list(prev)))
        prev = [sid]
    if form == "lowered":
        dag = DAGCode({"main": ExecutionPhase("main", "main", stmts)}, "main")
        return create_ast_from_phase(dag, "main"), stmts
    leaves = []
    for st in stmts:
        if getattr(st, "loops", None):
            return None, stmts           # loops need the lowering
        leaves.append(StatementWrapper(st))
    return Block(*leaves), stmts


# ---- value-mode tree executor -------------------------------------------------------------------------------

class Unset(Exception):
    def __init__(self, name):
        self.name = name


class LogFuncs(dict):
    def __init__(self, log):
        super().__init__()
        self.log = log

    def __contains__(self, k):
        return True

    def __getitem__(self, name):
        log = self.log

        def f(*a, **k):
            log.append((name, tuple(_n(x) for x in a), tuple(sorted((kk, _n(v)) for kk, v in k.items()))))
            r = FuncVal(name)(*a, **k)
            if name == "<func>h":
                return (r, r + 1)
            return r
        return f


def _n(x):
    import numpy as np
    if isinstance(x, np.ndarray):
        return tuple(x.tolist())
    return x


def execute(ast, store):
    """runs the tree top to bottom on `store`; returns (call log, yields)"""
    from dagrt.codegen.dag_ast import Block, ForLoop, IfThen, IfThenElse, NullASTNode, StatementWrapper
    from dagrt.language import Assign, AssignFunctionCall, Nop, YieldState
    log, yields = [], []
    funcs = LogFuncs(log)
    ev = Evaluator(store, funcs)

    def E(e):
        try:
            return ev(e)
        except Undefined as u:
            raise Unset(str(u))

    def run_stmt(st):
        cond = getattr(st, "condition", True)
        if cond is not True and not E(cond):
            return
        if isinstance(st, Assign):
            assert not st.loops
            val = E(st.expression)
            if st.assignee_subscript:
                if st.assignee not in store:
                    raise Unset(st.assignee)
                idx, = st.assignee_subscript
                store[st.assignee][E(idx)] = val
            else:
                # value semantics: assigning an array copies it (the passes target backends where it does; with
                # aliasing a copy-in temporary would be indistinguishable from the original)
                store[st.assignee] = val.copy() if hasattr(val, "copy") else val
        elif isinstance(st, AssignFunctionCall):
            args = [E(a) for a in st.parameters]
            kw = {k: E(v) for k, v in st.kw_parameters.items()}
            res = funcs[st.function_id](*args, **kw)
            if len(st.assignees) == 1:
                res = (res,)
            for a, r in zip(st.assignees, res):
                store[a] = r
        elif isinstance(st, YieldState):
            yields.append((_n(E(st.expression)), _n(E(st.time))))
        elif isinstance(st, Nop):
            pass
        else:
            raise TypeError(type(st).__name__)

    def run(node):
        if isinstance(node, StatementWrapper):
            run_stmt(node.statement)
        elif isinstance(node, Block):
            for ch in node.children:
                run(ch)
        elif isinstance(node, IfThen):
            if E(node.condition):
                run(node.then)
        elif isinstance(node, IfThenElse):
            if E(node.condition):
                run(node.then)
            else:
                run(node.else_)
        elif isinstance(node, ForLoop):
            for i in range(E(node.lbound), E(node.ubound)):
                store[node.loop_var_name] = i
                run(node.body)
            store.pop(node.loop_var_name, None)
        elif isinstance(node, NullASTNode):
            pass
        else:
            raise TypeError(type(node).__name__)
    run(ast)
    return log, yields


def initial_store(spec, valuation):
    import numpy as np
    primes = [3, 5, 7, 11, 13, 17, 19]
    if valuation["num"] == 1:
        primes = [23, 2, 29, 31, 37, 41, 43]
    store = {}
    used = [NAMINGS[n] for n in sorted({s[1] for s in spec})]
    for naming in used:
        for i, k in enumerate("xyab"):
            store.setdefault(naming[k], primes[i])
        store.setdefault(naming["r"], None)
    for naming in used:
        store[naming["c"]] = 1 if valuation["c"] else -1
        store[naming["d"]] = 1 if valuation["d"] else -1
        store[naming["r"]] = np.array([100, 200, 300])
    store["<cond>gf"] = valuation["gf"]
    store["gv"] = 1 if valuation["gv"] else -1
    return store


def valuations(spec):
    uses_c = any(t in ("x=a?b", "x=a?b xN", "x=f?g", "x=if-in-cond", "x=if-in-then", "x=if-in-else", "x=f(a?b)", "x=same-if-twice",
                       "x=same-if-twice2") for t, _, _, _ in spec)
    uses_d = any(t in ("x=if-in-then", "x=if-in-else", "x=same-if-twice", "x=same-if-twice2") for t, _, _, _ in spec)
    gs = {g for _, _, g, _ in spec}
    for c in ((True, False) if uses_c else (True,)):
        for d in ((True, False) if uses_d else (True,)):
            for gf in ((True, False) if gs & {"flag", "not-flag"} else (True,)):
                for gv in ((True, False) if "cmp" in gs else (True,)):
                    for num in (0, 1):
                        yield {"c": c, "d": d, "gf": gf, "gv": gv, "num": num}


PASSES = ["selfdep", "args", "calls", "ifexp", "fortran-order"]


def apply_pass(ast, which):
    from dagrt.codegen.transform import (eliminate_self_dependencies, expand_IfThenElse, isolate_function_arguments,
                                         isolate_function_calls)
    if which == "selfdep":
        return eliminate_self_dependencies(ast)
    if which == "args":
        return isolate_function_arguments(ast)
    if which == "calls":
        return isolate_function_calls(ast)
    if which == "ifexp":
        return expand_IfThenElse(ast)
    ast = eliminate_self_dependencies(ast)
    ast = isolate_function_arguments(ast)
    ast = isolate_function_calls(ast)
    return expand_IfThenElse(ast)


def all_names(stmts):
    """every name occurring anywhere in the statements (own walker)"""
    from mc.checks.c16 import names_of
    out = names_of(stmts)
    for st in stmts:
        out |= set(st.get_written_variables())
        for ident, _, _ in getattr(st, "loops", []):
            out.add(ident)
    return out


def canon_store(store, names):
    import numpy as np
    return {k: (_n(v) if isinstance(v, np.ndarray) else v) for k, v in store.items() if k in names}


def check_phase(spec, form, which):
    """returns ((sub, detail) or None, changed?, serialised tree)"""
    from dagrt.codegen.dag_ast import get_statements_in_ast
    from mc.checks.c05 import serialise
    ast, stmts = build_ast(spec, form)
    if ast is None:
        return None, False, None
    # domain: a loop counter exists only inside its loop; a phase in which another statement uses that name as a
    # variable reads an unset variable on some path (two naming schemes mixed in one phase can produce this)
    for st in stmts:
        counters = {ident for ident, _, _ in getattr(st, "loops", [])}
        if counters and any(counters & all_names([o]) for o in stmts if o is not st):
            return None, False, None
    orig_stmts = list(get_statements_in_ast(ast))
    orig_names = all_names(stmts) | all_names(orig_stmts)
    orig_ids = {s.id for s in orig_stmts}
    try:
        with kernel.time_limit(120):
            new = apply_pass(ast, which)
    except kernel.Budget:
        return ("budget", "pass %s did not terminate" % which), False, None
    except Exception as ex:
        return ("exception(%s,%s)" % (which, type(ex).__name__), "%s: %s" % (type(ex).__name__, str(ex)[:300])), False, None
    new_stmts = list(get_statements_in_ast(new))
    ser = json.dumps(serialise(new))
    changed = ser != json.dumps(serialise(ast))
    # ids
    ids = [s.id for s in new_stmts]
    if len(set(ids)) != len(ids):
        return ("fresh-id", "duplicate statement ids after %s: %s" % (which, sorted(ids))), changed, ser
    # introduced variables: written by new statements, absent from the original
    introduced = set()
    for s in new_stmts:
        if s.id not in orig_ids:
            introduced |= set(s.get_written_variables())
    captured = introduced & orig_names
    # a rewritten original statement keeps writing its own variables; only statements with new ids count
    if captured:
        return ("fresh-var", "pass %s introduces statement(s) writing %s, which the phase already uses" % (
            which, sorted(captured))), changed, ser
    written_by = {}
    for s in new_stmts:
        if s.id not in orig_ids:
            for vname in s.get_written_variables():
                written_by.setdefault(vname, []).append(s)
    # semantic comparison
    for val in valuations(spec):
        s0 = initial_store(spec, val)
        s1 = initial_store(spec, val)
        try:
            log0, y0 = execute(ast, s0)
        except Unset:
            continue                      # the original reads an unset variable: out of domain
        except Exception as ex:
            continue
        try:
            log1, y1 = execute(new, s1)
        except Unset as u:
            return ("use-before-def", "after %s, %s is read before it is set (valuation %s)" % (
                which, u.name, val)), changed, ser
        except Exception as ex:
            return ("exception(executing,%s)" % type(ex).__name__, "executing the rewritten phase: %s: %s" % (
                type(ex).__name__, ex)), changed, ser
        a, b = canon_store(s0, orig_names), canon_store(s1, orig_names)
        if a != b:
            diff = {k: (a.get(k), b.get(k)) for k in set(a) | set(b) if a.get(k) != b.get(k)}
            return ("value", "after %s, valuation %s: variables differ (before, after): %s" % (
                which, val, json.dumps(diff, default=repr)[:400])), changed, ser
        if y0 != y1:
            return ("value", "after %s, valuation %s: yielded values differ: %s vs %s" % (which, val, y0, y1)), changed, ser
        if sorted(log0, key=repr) != sorted(log1, key=repr):
            extra = [c for c in log1 if c not in log0]
            missing = [c for c in log0 if c not in log1]
            return ("calls", "after %s, valuation %s: calls added %s, calls lost %s" % (
                which, val, extra[:3], missing[:3])), changed, ser
    return None, changed, ser


def specs(tier):
    """phases as lists of (template, naming, guard, id)"""
    single = []
    for t in TEMPLATE_NAMES:
        for naming in NAMINGS:
            for g in GUARDS:
                for sid in IDS[:3]:
                    single.append((t, naming, g, sid))
    for s in single:
        yield [s]
    # two statements: second from a reduced menu
    core_t = ["x=f(g(y))", "x=a?b", "x=f?g", "x=x+1", "r[i]=r[i]+i", "x,y=h(x,y)", "yield f(x)@g(y)", "y=x*2",
              "x=if-in-then", "x=f(y,k=g(a))"]
    firsts = [(t, n, g, "tmp") for t in (TEMPLATE_NAMES if tier == "thorough" else core_t)
              for n in NAMINGS for g in ("T", "flag")]
    seconds = [(t, n, g, sid) for t in core_t for n in NAMINGS
               for g in ("T", "not-flag") for sid in ("tmp_0", "temp")]
    for a in firsts:
        for b in seconds:
            yield [a, b]


def bounds(tier):
    return {"templates": len(TEMPLATE_NAMES), "namings": list(NAMINGS), "guards": GUARDS, "k": 2,
            "ast_forms": ["lowered by create_ast_from_phase", "block of leaves keeping their own guards"],
            "pass_configurations": PASSES, "second_statement_menu": "10 templates x 3 namings x 2 guards x 2 ids"}


def shards(tier, seed):
    m = 64 if tier == "quick" else 256
    return [{"tier": tier, "mod": m, "rem": r} for r in range(m)]


def spec_str(spec):
    return " ; ".join("%s[%s,%s,id=%s]" % s for s in (tuple(x) for x in spec))


def shrink(spec, form, which, sub):
    spec = [tuple(s) for s in spec]
    changed = True
    while changed:
        changed = False
        if len(spec) > 1:
            for i in range(len(spec)):
                c = spec[:i] + spec[i + 1:]
                r, _, _ = check_phase(c, form, which)
                if r is not None and r[0] == sub:
                    spec = c
                    changed = True
                    break
            if changed:
                continue
        for i, (t, n, g, sid) in enumerate(spec):
            for cand in ((t, "plain", g, sid), (t, n, "T", sid), (t, n, g, "s0")):
                if cand != spec[i]:
                    c = spec[:i] + [cand] + spec[i + 1:]
                    r, _, _ = check_phase(c, form, which)
                    if r is not None and r[0] == sub:
                        spec = c
                        changed = True
                        break
            if changed:
                break
    return spec


def run_shard(desc, acc):
    for i, spec in enumerate(specs(desc["tier"])):
        if i % desc["mod"] != desc["rem"]:
            continue
        if acc.out_of_time():
            acc.cap("time cap in shard %r" % desc)
            return
        for form in ("lowered", "leaves"):
            for which in PASSES:
                acc.evaluations += 1
                r, changed, ser = check_phase(spec, form, which)
                if r is not None:
                    sub = r[0]
                    key = "%s|%s|%s" % (which, form, spec[-1][0])
                    if acc.want_violation(sub, key):
                        s = shrink(spec, form, which, sub)
                        r2, _, _ = check_phase(s, form, which)
                        acc.violation(sub, "C07/%s:%s %s %s" % (sub, which, form, spec_str(s)),
                                      {"spec": [list(x) for x in s], "form": form, "pass": which}, (r2 or r)[1])
                    else:
                        acc.count_violation(sub)
                    continue
                if changed:
                    acc.nontrivial += 1
                    acc.outcome(ser)
                    if i % 500 == 0 and which == "fortran-order":
                        acc.sample({"phase": spec_str(spec), "form": form, "pass": which, "rewritten": json.loads(ser)})


def replay(witness):
    spec = [tuple(s) for s in witness["spec"]]
    form, which = witness["form"], witness["pass"]
    r, _, _ = check_phase(spec, form, which)
    if r is None:
        return []
    s = shrink(spec, form, which, r[0])
    r2, _, _ = check_phase(s, form, which)
    return [{"sub": r[0], "sig": "C07/%s:%s %s %s" % (r[0], which, form, spec_str(s)),
             "witness": {"spec": [list(x) for x in s], "form": form, "pass": which}, "detail": (r2 or r)[1]}]
