"""C05 -- lowering a phase to structured code keeps order, guards and loops.

All hand-written phases with n <= 4 statements (kinds x guards x DAG shapes, factored as stated
in bounds()) are lowered by the real create_ast_from_phase under every storage permutation
of the statement list and two iteration orders of the dependency sets; the result is
executed by the tree-walking reference in trace mode under every valuation of the guard flags
and compared with the declared meaning of the phase; the generic backend walker is run on it.
"""

import itertools
import json

from mc import kernel
from mc.checks import c04
from mc.refsem import eval_guard, rtree_trace

ID = "C05"
LEVEL = "exploration"
TECHNIQUE = ("bounded exhaustive enumeration of phases (all DAGs x statement kinds x guards) x all storage permutations "
             "x all guard valuations; lowered tree executed by a reference tree walker and compared with the phase's "
             "declared meaning")
RULE = ("phases are enumerated as (labelled DAG, kind tuple, guard tuple) in the slices listed in bounds; each is lowered "
        "once per storage permutation and per dependency-set iteration order; non-trivial = phases with at least one "
        "guard other than True or one loop or one dependency edge; distinct_outcomes = distinct (serialised tree) results")
ASSUMPTIONS = ["flags c, d keep their value during the step", "loop bounds are small constants or the variable n=2"]
LEVEL_TEXT = ("Every phase in the stated slices is lowered by the real code for every storage order and its executed "
              "leaves (with loop indices) are compared, under all guard valuations, with the set the phase declares; "
              "order is checked against the transitive dependency relation.")
LEVEL_NOTE = ("Trusted: rtree_trace (tree walker) and the 20-line expected-leaf computation. Complete enumeration for n<=4 "
              "statements; four fixed large phases (1200-4000 statements) as a size-corner probe.")

KINDS = ["A0", "A1", "A1v", "A2", "N", "Y", "F", "C"]
GUARDS = ["T", "F", "c", "!c", "d", "c&d", "!!c"]
VALS = [{"<cond>c": a, "<cond>d": b, "n": 2} for a in (False, True) for b in (False, True)]


def guard_expr(g):
    from pymbolic.primitives import LogicalAnd, LogicalNot, Variable
    c, d = Variable("<cond>c"), Variable("<cond>d")
    return {"T": True, "F": False, "c": c, "!c": LogicalNot(c), "d": d,
            "c&d": LogicalAnd((c, d)), "!!c": LogicalNot(LogicalNot(c))}[g]


def loops_of(kind):
    from pymbolic.primitives import Variable
    if kind == "A1":
        return [("i", 0, 2)]
    if kind == "A1v":
        return [("i", 0, Variable("n"))]
    if kind == "A2":
        return [("i", 0, 3), ("j", 0, Variable("i"))]
    return []


def make_stmt(i, kind, guard, deps):
    from dagrt.language import Assign, AssignFunctionCall, FailStep, Nop, YieldState
    from pymbolic.primitives import Variable
    sid = "s%d" % i
    cond = guard_expr(guard)
    if kind == "N":
        return Nop(id=sid, depends_on=deps)
    if kind in ("A0", "A1", "A1v", "A2"):
        loops = loops_of(kind)
        if loops:
            return Assign(id=sid, assignee="r%d" % i, assignee_subscript=(Variable("i"),), expression=i,
                          loops=loops, condition=cond, depends_on=deps)
        return Assign(id=sid, assignee="x%d" % i, assignee_subscript=(), expression=i,
                      condition=cond, depends_on=deps)
    if kind == "Y":
        return YieldState(id=sid, time_id="t", time=Variable("<t>"), component_id="y",
                          expression=Variable("<state>y"), condition=cond, depends_on=deps)
    if kind == "F":
        return FailStep(id=sid, condition=cond, depends_on=deps)
    if kind == "C":
        return AssignFunctionCall(id=sid, assignees=("u%d" % i,), function_id="<func>f",
                                  parameters=(Variable("<t>"),), condition=cond, depends_on=deps)
    raise ValueError(kind)


def expected_leaves(n, kinds, guards, val):
    """multiset (as sorted list) of (id, idx) the phase declares under val"""
    out = []
    for i in range(n):
        if kinds[i] == "N":
            continue
        if not eval_guard(guard_expr(guards[i]), val):
            continue
        k = kinds[i]
        if k == "A1":
            idxs = [(("i", a),) for a in range(0, 2)]
        elif k == "A1v":
            idxs = [(("i", a),) for a in range(0, val["n"])]
        elif k == "A2":
            idxs = [(("i", a), ("j", b)) for a in range(0, 3) for b in range(0, a)]
        else:
            idxs = [()]
        out.extend(("s%d" % i, ix) for ix in idxs)
    return out


def serialise(node):
    from dagrt.codegen.dag_ast import Block, ForLoop, IfThen, IfThenElse, NullASTNode, StatementWrapper
    if isinstance(node, StatementWrapper):
        s = node.statement
        return ["S", s.id, type(s).__name__, str(getattr(s, "condition", None)),
                str(getattr(s, "loops", None))]
    if isinstance(node, NullASTNode):
        return ["NULL"]
    if isinstance(node, Block):
        return ["B"] + [serialise(c) for c in node.children]
    if isinstance(node, IfThen):
        return ["I", str(node.condition), serialise(node.then)]
    if isinstance(node, IfThenElse):
        return ["E", str(node.condition), serialise(node.then), serialise(node.else_)]
    if isinstance(node, ForLoop):
        return ["F", node.loop_var_name, str(node.lbound), str(node.ubound), serialise(node.body)]
    return ["?", type(node).__name__]


class Walker:
    """The generic structured-backend walker, recording."""
    def __init__(self):
        from dagrt.codegen.codegen_base import StructuredCodeGenerator

        class W(StructuredCodeGenerator):
            def __init__(s):
                s.log = []

            def lower_inst(s, inst):
                s.log.append(inst.id)

            def emit_if_begin(s, e):
                pass

            def emit_if_end(s):
                pass

            def emit_else_begin(s):
                pass

            def emit_for_begin(s, v, lo, hi):
                pass

            def emit_for_end(s, v):
                pass

            def emit_return(s):
                pass
        self.cls = W


_WALKER = []


_DECOYS = {}


def lower(n, edges, kinds, guards, perm, dep_rev, twice=False):
    from dagrt.codegen.dag_ast import create_ast_from_phase
    from dagrt.language import DAGCode, ExecutionPhase
    deps, clo = c04.closure_of(n, edges)
    stmts = []
    for i in range(n):
        d = ["s%d" % j for j in deps[i]]
        st = make_stmt(i, kinds[i], guards[i], d)
        if dep_rev:
            st.depends_on = c04.OrderedDeps(list(reversed(sorted(d))))
        stmts.append(st)
    stored = [stmts[p] for p in perm]

    roots = sorted("s%d" % i for i in range(n) if not any(b == i for _, b in edges))

    class Phase(ExecutionPhase):
        @property
        def depends_on(self):
            return c04.OrderedDeps(list(reversed(roots)))
    # the phase's own root computation is used in the default configuration; the scripted (reversed) root order only
    # in the dep_rev configurations
    ph = (Phase if dep_rev else ExecutionPhase)(name="ph", next_phase="ph", statements=stored)
    # the phase sits between two other phases that use the SAME statement ids (ids are unique per phase only) for
    # statements of another kind with other dependencies
    other = tuple("A0" if k == "A2" else "A2" for k in kinds)
    if other not in _DECOYS:
        _DECOYS[other] = (
            ExecutionPhase(name="aa", next_phase="ph", statements=[make_stmt(i, other[i], "T", []) for i in range(n)]),
            ExecutionPhase(name="zz", next_phase="ph", statements=[
                make_stmt(i, other[i], "T", ["s%d" % (i + 1)] if i + 1 < n else []) for i in range(n)]))
    aa, zz = _DECOYS[other]
    dag = DAGCode({"aa": aa, "ph": ph, "zz": zz}, "ph")
    tree = create_ast_from_phase(dag, "ph")
    if twice:
        # lowering must not consume or alter the phase: the same objects lowered again give the same tree
        return tree, clo, create_ast_from_phase(dag, "ph")
    return tree, clo


def check_case(n, edges, kinds, guards, perms, acc=None):
    """returns (sub, detail, perm, dep_rev) or None"""
    base = None
    for pi, perm in enumerate(perms):
        # identity order: both set-iteration orders; other storage orders alternate between them
        for dep_rev in ((False, True) if pi == 0 else ((pi % 2 == 1),)):
            again = None
            try:
                with kernel.time_limit(120):
                    if base is None:
                        tree, clo, again = lower(n, edges, kinds, guards, perm, dep_rev, twice=True)
                    else:
                        tree, clo = lower(n, edges, kinds, guards, perm, dep_rev)
            except kernel.Budget:
                return ("budget", "create_ast_from_phase did not terminate within 120 s", perm, dep_rev)
            except Exception as e:
                return ("exception(%s)" % type(e).__name__, "create_ast_from_phase: %s: %s" % (
                    type(e).__name__, e), perm, dep_rev)
            ser = json.dumps(serialise(tree))
            if acc is not None:
                acc.evaluations += 1
            if base is None:
                base = ser
                if again is not None and json.dumps(serialise(again)) != ser:
                    return ("second-lowering", "lowering the same phase object a second time gives another tree: "
                            "%s vs %s" % (ser[:300], json.dumps(serialise(again))[:300]), perm, dep_rev)
                r = check_tree(n, kinds, guards, clo, tree, ser)
                if r is not None:
                    return r + (perm, dep_rev)
            elif ser != base:
                return ("storage-order", "tree differs between storage orders / set iteration orders: %s vs %s" % (
                    base[:400], ser[:400]), perm, dep_rev)
    return None


def check_tree(n, kinds, guards, clo, tree, ser):
    from dagrt.codegen.dag_ast import StatementWrapper, get_statements_in_ast
    # leaf shape
    if '"NULL"' in ser:
        # a NullASTNode anywhere makes every backend walker raise
        pass
    try:
        if not _WALKER:
            _WALKER.append(Walker().cls)
        w = _WALKER[0]()
        w.lower_node(tree)
    except Exception as e:
        return ("walker-rejects(%s)" % type(e).__name__,
                "StructuredCodeGenerator.lower_node raised %s: %s on %s" % (type(e).__name__, e, ser[:300]))
    try:
        for st in get_statements_in_ast(tree):
            if getattr(st, "condition", True) is not True or getattr(st, "loops", []):
                return ("leaf-shape", "leaf %s still carries condition/loops: %s" % (st.id, st))
    except Exception as e:
        return ("exception(%s)" % type(e).__name__, "get_statements_in_ast: %s" % e)
    for val in VALS:
        want = expected_leaves(n, kinds, guards, val)
        try:
            got = rtree_trace(tree, val)
        except Exception as e:
            return ("exception(%s)" % type(e).__name__, "walking the tree: %s: %s" % (type(e).__name__, e))
        if sorted(got) != sorted(want):
            return ("executed-set", "valuation %s: expected leaves %s, tree executes %s" % (
                {k: v for k, v in val.items()}, sorted(want), sorted(got)))
        # per statement: iterations in declared nest order (outer-to-inner, ascending)
        per = {}
        for sid, ix in got:
            per.setdefault(sid, []).append(ix)
        wper = {}
        for sid, ix in want:
            wper.setdefault(sid, []).append(ix)
        for sid in per:
            if [tuple(v for v, _ in ix) for ix in per[sid]] != [tuple(v for v, _ in ix) for ix in wper[sid]]:
                return ("loop-nest", "statement %s: loop variables %s, declared %s" % (sid, per[sid], wper[sid]))
        # order vs transitive dependencies
        first = {}
        last = {}
        for pos, (sid, ix) in enumerate(got):
            first.setdefault(sid, pos)
            last[sid] = pos
        for i in range(n):
            si = "s%d" % i
            if si not in first:
                continue
            for j in clo[i]:
                sj = "s%d" % j
                if j != i and sj in last and last[sj] > first[si]:
                    return ("order", "valuation %s: %s runs before its (transitive) dependency %s: %s" % (
                        val, si, sj, [g[0] for g in got]))
    return None


def perms_for(n, mode):
    allp = list(itertools.permutations(range(n)))
    if mode == "all":
        return allp
    ident = tuple(range(n))
    out = [ident, tuple(reversed(ident)), ident[1:] + ident[:1]]
    if mode == "rot":
        for r in range(2, n):
            out.append(ident[r:] + ident[:r])
    return list(dict.fromkeys(out))


def bounds(tier):
    b = {
        "n<=2": "complete product: all DAGs x 8 kinds^n x 7 guards^n x all permutations x 2 set orders",
        "n=3 slice G": "all 25 DAGs x all 7^3 guard tuples, kinds all plain assignments, all 6 permutations",
        "n=3 slice K": "all 25 DAGs x all 8^3 kind tuples x guard tuples {TTT, ccc, (c,!c,F), (c&d,d,!!c)}, all permutations",
        "n=4 slice G": "all 543 DAGs x guard tuples over {T,F,c,!c}^4, plain assignments, %s" % (
            "identity, reversal, one rotation" if tier == "quick" else "all 24 permutations"),
        "n=4 slice K": "all 543 DAGs x kind tuples over {A0,A1,N,Y}^4, guards all c, %s" % (
            "identity, reversal, one rotation" if tier == "quick" else "rotations+reversal"),
        "set_iteration_orders": "sorted and reversed order of phase roots and of every depends_on set",
        "valuations": 4,
    }
    if tier == "thorough":
        b["n=4 slice K2"] = "all 543 DAGs x kind tuples over {A0,A2,F,C}^4 x guards {(c,!c,T,F) rotations}"
    return b


def slices(tier):
    """yield (name, n, kinds_iter_factory, guards_iter_factory, perm mode)"""
    out = []
    for n in (1, 2):
        out.append(("n%d" % n, n, lambda n=n: itertools.product(KINDS, repeat=n),
                    lambda n=n: itertools.product(GUARDS, repeat=n), "all"))
    out.append(("n3G", 3, lambda: [("A0",) * 3], lambda: itertools.product(GUARDS, repeat=3), "all"))
    out.append(("n3K", 3, lambda: itertools.product(KINDS, repeat=3),
                lambda: [("T", "T", "T"), ("c", "c", "c"), ("c", "!c", "F"), ("c&d", "d", "!!c")], "all"))
    out.append(("n4G", 4, lambda: [("A0",) * 4], lambda: itertools.product(["T", "F", "c", "!c"], repeat=4),
                "few" if tier == "quick" else "all"))
    out.append(("n4K", 4, lambda: itertools.product(["A0", "A1", "N", "Y"], repeat=4),
                lambda: [("c",) * 4], "few" if tier == "quick" else "rot"))
    if tier == "thorough":
        out.append(("n4K2", 4, lambda: itertools.product(["A0", "A2", "F", "C"], repeat=4),
                    lambda: [("c", "!c", "T", "F"), ("!c", "T", "F", "c"), ("T", "F", "c", "!c"),
                             ("F", "c", "!c", "T")], "rot"))
    return out


def run_large(acc, only=None):
    """size corner: phases far above the enumerated sizes -- long chains, a ladder, a wide fan-in, with guards and
    loops sprinkled in -- lowered once each; executed set, loop nests and order checked with the same walker"""
    from dagrt.codegen.dag_ast import create_ast_from_phase
    from dagrt.language import DAGCode, ExecutionPhase
    for shape, n in (("chain", 1500), ("chain", 4000), ("ladder", 1200), ("fan-in", 1500)):
        if only is not None and only != [shape, n]:
            continue

        def deps(i):
            if shape == "chain":
                return [i - 1] if i else []
            if shape == "fan-in":
                return list(range(n - 1)) if i == n - 1 else []
            return [j for j in (i - 1, i - 2) if j >= 0]
        kinds = [("A1" if i % 7 == 3 else "A0") for i in range(n)]
        guards = [("c" if i % 5 == 1 else "!c" if i % 11 == 2 else "T") for i in range(n)]
        stmts = [make_stmt(i, kinds[i], guards[i], ["s%d" % j for j in deps(i)]) for i in range(n)]
        dag = DAGCode({"ph": ExecutionPhase(name="ph", next_phase="ph", statements=list(reversed(stmts)))}, "ph")
        acc.evaluations += 1
        problem = None
        try:
            with kernel.time_limit(300):
                tree = create_ast_from_phase(dag, "ph")
            for val in (VALS[0], VALS[3]):
                got = rtree_trace(tree, val)
                want = expected_leaves(n, kinds, guards, val)
                if sorted(got) != sorted(want):
                    problem = "executed leaves differ from the declared ones (%d vs %d) under %s" % (
                        len(got), len(want), val)
                    break
                first = {}
                for k, x in enumerate(got):
                    first.setdefault(x[0], k)
                bad = [(i, j) for i in range(n) for j in deps(i)
                       if "s%d" % i in first and "s%d" % j in first and first["s%d" % j] > first["s%d" % i]]
                if bad:
                    problem = "s%d runs before its dependency s%d" % bad[0]
                    break
        except BaseException as e:
            problem = "%s: %s" % (type(e).__name__, str(e)[:150])
        if problem:
            acc.violation("large-phase", "C05/large-phase:%s of %d statements" % (shape, n), {"large": [shape, n]},
                          "well-formed phase: a %s of %d statements: %s" % (shape, n, problem))
        else:
            acc.nontrivial += 1


def shards(tier, seed):
    out = [{"slice": "@large"}]
    for name, n, _, _, _ in slices(tier):
        m = 1 if n <= 2 else (16 if n == 3 else 64)
        for r in range(m):
            out.append({"slice": name, "mod": m, "rem": r, "tier": tier})
    return out


def sig_of(sub, n, edges, kinds, guards):
    best = None
    for perm in itertools.permutations(range(n)):
        e = sorted((perm[a], perm[b]) for a, b in edges)
        k = [None] * n
        g = [None] * n
        for i in range(n):
            k[perm[i]] = kinds[i]
            g[perm[i]] = guards[i]
        key = json.dumps([e, k, g])
        if best is None or key < best:
            best = key
    return "C05/%s:n=%d %s" % (sub, n, best)


def shrink(w, sub):
    def fails(x):
        r = check_case(x["n"], [tuple(e) for e in x["edges"]], x["kinds"], x["guards"],
                       perms_for(x["n"], "all"))
        return r is not None and r[0] == sub

    def cands(x):
        n = x["n"]
        for v in range(n):
            if n == 1:
                break
            ren = {i: (i if i < v else i - 1) for i in range(n) if i != v}
            yield {"n": n - 1, "edges": [[ren[a], ren[b]] for a, b in x["edges"] if a != v and b != v],
                   "kinds": [x["kinds"][i] for i in range(n) if i != v],
                   "guards": [x["guards"][i] for i in range(n) if i != v]}
        for e in x["edges"]:
            yield dict(x, edges=[f for f in x["edges"] if f != e])
        for i in range(n):
            if x["guards"][i] != "T":
                for g in GUARDS:
                    if GUARDS.index(g) < GUARDS.index(x["guards"][i]):
                        gs = list(x["guards"])
                        gs[i] = g
                        yield dict(x, guards=gs)
            if x["kinds"][i] != "A0":
                for k in KINDS:
                    if KINDS.index(k) < KINDS.index(x["kinds"][i]):
                        ks = list(x["kinds"])
                        ks[i] = k
                        yield dict(x, kinds=ks)
    cur = w
    while True:
        for c in cands(cur):
            if fails(c):
                cur = c
                break
        else:
            return cur


def record(acc, r, n, edges, kinds, guards):
    sub = r[0]
    if not acc.want_violation(sub):
        acc.count_violation(sub)
        return
    w = {"n": n, "edges": [list(e) for e in edges], "kinds": list(kinds), "guards": list(guards)}
    s = shrink(w, sub)
    r2 = check_case(s["n"], [tuple(e) for e in s["edges"]], s["kinds"], s["guards"], perms_for(s["n"], "all"))
    acc.violation(sub, sig_of(sub, s["n"], s["edges"], s["kinds"], s["guards"]), s,
                  "%s\nphase: %s" % ((r2 or r)[1], json.dumps(s)))


def run_shard(desc, acc):
    if desc["slice"] == "@large":
        return run_large(acc)
    sl = [s for s in slices(desc["tier"]) if s[0] == desc["slice"]][0]
    name, n, kinds_f, guards_f, pmode = sl
    perms = perms_for(n, pmode)
    mod, rem = desc["mod"], desc["rem"]
    idx = 0
    for edges in c04.dags(n):
        for kinds in kinds_f():
            for guards in guards_f():
                idx += 1
                if idx % mod != rem:
                    continue
                if (idx & 0xff) == 0 and acc.out_of_time():
                    acc.cap("time cap in shard %r" % desc)
                    return
                r = check_case(n, edges, kinds, guards, perms, acc)
                if r is not None:
                    record(acc, r, n, edges, kinds, guards)
                    continue
                if edges or any(g != "T" for g in guards) or any(k in ("A1", "A1v", "A2") for k in kinds):
                    acc.nontrivial += 1
                tree, _ = lower(n, edges, kinds, guards, tuple(range(n)), False)
                ser = serialise(tree)
                acc.outcome(json.dumps(ser))
                if idx % 5000 == 1:
                    acc.sample({"n": n, "edges(i depends on j)": edges, "kinds": kinds, "guards": guards,
                                "lowered_tree": ser})


def replay(witness):
    w = witness
    if "large" in w:
        acc = kernel.Acc()
        run_large(acc, only=w["large"])
        return acc.violations
    r = check_case(w["n"], [tuple(e) for e in w["edges"]], w["kinds"], w["guards"], perms_for(w["n"], "all"))
    if r is None:
        return []
    s = shrink(w, r[0])
    r2 = check_case(s["n"], [tuple(e) for e in s["edges"]], s["kinds"], s["guards"], perms_for(s["n"], "all"))
    return [{"sub": r[0], "sig": sig_of(r[0], s["n"], s["edges"], s["kinds"], s["guards"]), "witness": s,
             "detail": "%s\nphase: %s" % ((r2 or r)[1], json.dumps(s))}]
