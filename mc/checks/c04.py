"""C04 -- each step runs every statement of the phase once, after its dependencies.

Explicit-state exploration of the real ExecutionController: all labelled DAGs on n statements
x guard valuations x ALL iteration orders of the root set and of every depends_on set
(scripted-order frozenset subclass) x dynamic-request scripts (<= d requests per step, each
naming 1-2 arbitrary statements at an arbitrary execution point).  A stub target records the
callback order; invariants are checked in every visited controller state.  Every DAG is also
run once through the real NumpyInterpreter.run_single_step.
"""

import itertools
import json

from mc import kernel

ID = "C04"
LEVEL = "model_checking"
TECHNIQUE = ("explicit-state exploration of the real ExecutionController over all DAGs (n<=4/5) x guard valuations x "
             "all set-iteration orders x all dynamic plan-request scripts up to d requests, invariants on every state")
RULE = ("labelled DAGs are enumerated by edge subsets (acyclic only), crossed with every permutation of the root set "
        "and of every depends_on set, guard valuations and request scripts; states = distinct (executed set, plan) "
        "controller states observed at callbacks, transitions = plan pops; non-trivial = executions whose callback "
        "order is not the identity labelling order or that contain a request; distinct_outcomes = distinct callback traces")
ASSUMPTIONS = [
    "the stub target returns exactly what the script says; new_deps are issued only from exec callbacks (as the API allows)",
    "statements beyond n=5 and more than 2 requests per step are not explored",
]
LEVEL_TEXT = ("The controller's reachable (executed, plan) states are enumerated exhaustively for every DAG up to the bound, "
              "under every iteration order of the unordered sets it consumes and every bounded request script; visit-once, "
              "exec-iff-guard, dependency order, set consistency and requested-first are checked on all of them.")
LEVEL_NOTE = "Trusted: the 60-line stub target/oracle. Real interpreter binding is checked for every DAG with d=0."


class OrderedDeps(frozenset):
    """frozenset whose iteration order is scripted (hash order is one of these)."""
    def __new__(cls, order):
        self = super().__new__(cls, order)
        self._order = tuple(order)
        return self

    def __iter__(self):
        return iter(self._order)


class Stub:
    exec_method = "exec_stub"

    def __init__(self, sid, deps_order):
        self.id = sid
        self.depends_on = OrderedDeps(deps_order)

    def __str__(self):
        return "stub %s" % self.id


class Violation(Exception):
    def __init__(self, sub, detail):
        self.sub = sub
        self.detail = detail


class Abort(Exception):
    """Stands for FailStep / SwitchPhase / Raise / a failing user function: cuts the step short."""


class Target:
    def __init__(self, ctl, phase, guards, script, deps, closure):
        self.ctl = ctl
        self.phase = phase
        self.guards = guards
        self.script = script        # {issuing statement id: [requested ids]}
        self.trace = []
        self.deps = deps
        self.closure = closure
        self.visited = []
        self.pending_req = None     # set of ids that must come first
        self.states = set()
        self.current = None
        self.abort_at = None
        self.own = {st.id: st for st in phase.statements}

    def _check_sets(self, where):
        c = self.ctl
        if not all(hasattr(c, a) for a in ("plan", "plan_id_set", "executed_ids")):
            return          # the book-keeping is not part of the property; observed only where it exists
        if len(set(c.plan)) != len(c.plan) or set(c.plan) != set(c.plan_id_set):
            raise Violation("sets-consistent", "%s: plan=%s plan_id_set=%s" % (where, c.plan, sorted(c.plan_id_set)))
        if set(c.plan) & set(c.executed_ids):
            raise Violation("sets-consistent", "%s: plan %s overlaps executed %s" % (
                where, c.plan, sorted(c.executed_ids)))
        self.states.add((frozenset(c.executed_ids), tuple(c.plan)))

    def evaluate_condition(self, stmt):
        sid = stmt.id
        if stmt is not self.own.get(sid):
            raise Violation("foreign-statement", "the step of phase 'ph' was handed %s, which is not a statement of "
                            "that phase (another phase uses the same id)" % (stmt,))
        self._check_sets("at guard of %s" % sid)
        if sid in self.visited:
            raise Violation("visit-once", "%s visited twice; trace %s" % (sid, self.trace))
        missing = [d for d in self.deps[sid] if d not in self.visited]
        if missing:
            raise Violation("dep-order", "%s visited before its dependencies %s; trace %s" % (
                sid, missing, self.trace))
        if self.pending_req is not None:
            need = self.pending_req - set(self.visited)
            if need and sid not in need:
                raise Violation("requested-first",
                                "%s visited while requested statements (with dependencies) %s are still "
                                "unvisited; trace %s" % (sid, sorted(need), self.trace))
            if not (need - {sid}):
                self.pending_req = None
        self.visited.append(sid)
        self.trace.append("c%s" % sid)
        return self.guards[sid]

    def exec_stub(self, stmt):
        sid = stmt.id
        if not self.guards[sid]:
            raise Violation("exec-iff-guard", "%s executed although its guard is false" % sid)
        if ("x%s" % sid) in self.trace:
            raise Violation("exec-iff-guard", "%s executed twice" % sid)
        self.trace.append("x%s" % sid)
        if self.abort_at == sid:
            raise Abort()
        req = self.script.get(sid)
        if req is None:
            return None
        need = set()
        for r in req:
            need |= self.closure[r]
        need -= set(self.visited)
        self.pending_req = need if need else None
        return None, list(req)


def closure_of(n, edges):
    deps = {i: [j for (a, j) in edges if a == i] for i in range(n)}   # edge (i, j): i depends on j
    clo = {}

    def rec(i):
        if i in clo:
            return clo[i]
        s = {i}
        for j in deps[i]:
            s |= rec(j)
        clo[i] = s
        return s
    for i in range(n):
        rec(i)
    return deps, clo


def all_dags(n):
    pairs = [(i, j) for i in range(n) for j in range(n) if i != j]
    for mask in range(1 << len(pairs)):
        edges = [pairs[b] for b in range(len(pairs)) if mask >> b & 1]
        # quick reject 2-cycles
        es = set(edges)
        if any((j, i) in es for (i, j) in edges):
            continue
        if is_acyclic(n, edges):
            yield edges


def is_acyclic(n, edges):
    deps = {i: [j for (a, j) in edges if a == i] for i in range(n)}
    state = {}

    def visit(i):
        if state.get(i) == 1:
            return False
        if state.get(i) == 2:
            return True
        state[i] = 1
        for j in deps[i]:
            if not visit(j):
                return False
        state[i] = 2
        return True
    return all(visit(i) for i in range(n))


def method_around(phase, ids):
    """the method the controller belongs to: the phase under test between two other phases that use the SAME statement
    ids (ids are unique per phase only) with other dependencies -- none before, a chain after"""
    from dagrt.language import DAGCode, ExecutionPhase
    before = ExecutionPhase(name="aa", next_phase="ph", statements=[Stub(i, []) for i in ids])
    after = ExecutionPhase(name="zz", next_phase="ph",
                           statements=[Stub(i, ids[k + 1:k + 2]) for k, i in enumerate(ids)])
    return DAGCode({"aa": before, "ph": phase, "zz": after}, "ph")


def run_case(n, edges, root_order, dep_orders, guards, script, second_step=True, abort=None):
    """One execution on the real controller. Returns (violation or None, info)."""
    from dagrt.language import ExecutionController, ExecutionPhase
    deps, clo = closure_of(n, edges)
    ids = ["s%d" % i for i in range(n)]
    stmts = [Stub(ids[i], [ids[j] for j in dep_orders[i]]) for i in range(n)]
    phase = ExecutionPhase(name="ph", next_phase="ph", statements=stmts)
    ctl = ExecutionController(method_around(phase, ids))
    depsn = {ids[i]: [ids[j] for j in deps[i]] for i in range(n)}
    clon = {ids[i]: {ids[j] for j in clo[i]} for i in range(n)}
    g = {ids[i]: guards[i] for i in range(n)}
    sc = {ids[k]: [ids[r] for r in v] for k, v in script.items()}
    info = {"states": set(), "transitions": 0, "trace": None}
    try:
        for step in range(2 if second_step else 1):
            tgt = Target(ctl, phase, g, sc, depsn, clon)
            if abort is not None and step == 0:
                tgt.abort_at = ids[abort]
            try:
                ctl.reset()
                ctl.update_plan(phase, [ids[i] for i in root_order])
                tgt._check_sets("after initial update_plan")
                for _ in ctl(phase, tgt):
                    pass
                tgt._check_sets("at end of step")
            except Abort:
                info["transitions"] += len(tgt.visited)
                info["states"] |= tgt.states
                continue        # step cut short: the next step must be a complete, fresh one
            except Violation as v:
                return (v.sub, "step %d: %s" % (step, v.detail)), info
            info["states"] |= tgt.states
            info["transitions"] += len(tgt.visited)
            if step == 0:
                info["trace"] = tgt.trace
            missing = [i for i in ids if i not in tgt.visited]
            if missing:
                return ("visit-once", "step %d: never visited %s; trace %s" % (step, missing, tgt.trace)), info
            notx = [i for i in ids if g[i] and ("x" + i) not in tgt.trace]
            if notx:
                return ("exec-iff-guard", "step %d: guard true but never executed: %s" % (step, notx)), info
            if getattr(ctl, "plan", None) or getattr(ctl, "plan_id_set", None):
                return ("sets-consistent", "plan not empty after the step: %s" % ctl.plan), info
    except Exception as e:
        return ("exception(%s)" % type(e).__name__, "%s: %s" % (type(e).__name__, e)), info
    return None, info


def orders_for(n, edges):
    deps, _ = closure_of(n, edges)
    roots = [i for i in range(n) if not any(j == i for (_, j) in edges)]
    per = [list(itertools.permutations(deps[i])) for i in range(n)]
    return roots, per


def scripts_for(n, guards, d):
    """request scripts with <= d requests: each at a statement whose guard is true, naming 1-2 statements"""
    reqs = [[r] for r in range(n)] + [[a, b] for a in range(n) for b in range(n) if a != b]
    pts = [i for i in range(n) if guards[i]]
    yield {}
    if d >= 1:
        for p in pts:
            for r in reqs:
                yield {p: r}
    if d >= 2:
        for p1, p2 in itertools.combinations(pts, 2):
            for r1 in reqs:
                for r2 in reqs:
                    yield {p1: r1, p2: r2}


def guard_valuations(n, full):
    if full:
        return [list(v) for v in itertools.product([True, False], repeat=n)]
    out = [[True] * n, [False] * n]
    for i in range(n):
        v = [True] * n
        v[i] = False
        out.append(v)
    return out


def bounds(tier):
    if tier == "quick":
        return {"n_max": 4, "requests_per_step_max": 1, "guards": "all 2^n", "orders": "all",
                "interpreter_binding": "all DAGs n<=4 x all guard valuations; chains of <= 4 statements whose guards are "
                "one expression over a variable that the chain flips; size corner: chains of 1500 and 4000 statements, "
                "a fan-in of 1500, a ladder of 1200"}
    return {"n_max_d0": 5, "n_max_d2": 4, "n5_guards": "all-true, all-false, each single false",
            "n5_order_cap_per_dag": 400, "n5_d1": "all-true guards, first 24 orders per DAG",
            "orders_n<=4": "all"}


def shards(tier, seed):
    out = []
    for n in (1, 2, 3):
        out.append({"n": n, "d": 1 if tier == "quick" else 2, "mod": 1, "rem": 0, "mode": "full"})
    m = 64
    for r in range(m):
        out.append({"n": 4, "d": 1, "mod": m, "rem": r, "mode": "full"})
    if tier == "thorough":
        m = 256
        for r in range(m):
            out.append({"n": 4, "d": 2, "mod": m, "rem": r, "mode": "d2only"})
        for r in range(m):
            out.append({"n": 5, "d": 1, "mod": m, "rem": r, "mode": "n5"})
    out.append({"n": 4, "mode": "interp", "mod": 1, "rem": 0, "d": 0})
    return out


_DAGS = {}


def dags(n):
    if n not in _DAGS:
        _DAGS[n] = list(all_dags(n))
    return _DAGS[n]


def sig_of(sub, w):
    """canonical form under relabelling"""
    n = w["n"]
    best = None
    for perm in itertools.permutations(range(n)):
        edges = sorted((perm[a], perm[b]) for a, b in w["edges"])
        roots = [perm[i] for i in w["root_order"]]
        dord = [None] * n
        for i in range(n):
            dord[perm[i]] = [perm[j] for j in w["dep_orders"][i]]
        guards = [None] * n
        for i in range(n):
            guards[perm[i]] = w["guards"][i]
        script = sorted((perm[int(k)], [perm[r] for r in v]) for k, v in w["script"].items())
        ab = None if w.get("abort") is None else perm[w["abort"]]
        key = json.dumps([edges, roots, dord, guards, script] + ([["abort", ab]] if ab is not None else []))
        if best is None or key < best:
            best = key
    return "C04/%s:n=%d %s" % (sub, n, best)


def shrink(w, sub):
    def fails(x):
        r, _ = run_w(x)
        return r is not None and r[0] == sub

    def cands(x):
        n = x["n"]
        # drop a request / one requested id
        for k, v in x["script"].items():
            s2 = {a: b for a, b in x["script"].items() if a != k}
            yield dict(x, script=s2)
            if len(v) == 2:
                for keep in v:
                    yield dict(x, script=dict(x["script"], **{k: [keep]}))
        # remove a node
        for v in range(n):
            if x.get("abort") == v:
                continue
            ren = {i: (i if i < v else i - 1) for i in range(n) if i != v}
            if any(int(k) == v or v in r for k, r in x["script"].items()):
                continue
            edges = [[ren[a], ren[b]] for a, b in x["edges"] if a != v and b != v]
            dord = [[ren[j] for j in x["dep_orders"][i] if j != v] for i in range(n) if i != v]
            guards = [x["guards"][i] for i in range(n) if i != v]
            script = {str(ren[int(k)]): [ren[r] for r in rr] for k, rr in x["script"].items()}
            roots_set = [i for i in range(n - 1) if not any(b == i for _, b in edges)]
            old = [ren[i] for i in x["root_order"] if i != v]
            root_order = [i for i in old if i in roots_set] + [i for i in roots_set if i not in old]
            yield {"n": n - 1, "edges": edges, "root_order": root_order, "dep_orders": dord,
                   "guards": guards, "script": script,
                   "abort": None if x.get("abort") is None else ren[x["abort"]]}
        # remove an edge
        for e in x["edges"]:
            edges = [f for f in x["edges"] if f != e]
            dord = [[j for j in x["dep_orders"][i] if not (i == e[0] and j == e[1])] for i in range(n)]
            roots_set = [i for i in range(n) if not any(b == i for _, b in edges)]
            root_order = [i for i in x["root_order"] if i in roots_set] + \
                [i for i in roots_set if i not in x["root_order"]]
            yield dict(x, edges=edges, dep_orders=dord, root_order=root_order)
        # guards to true
        for i in range(n):
            if not x["guards"][i]:
                g = list(x["guards"])
                g[i] = True
                yield dict(x, guards=g)
    cur = w
    while True:
        for c in cands(cur):
            if c["n"] >= 1 and fails(c):
                cur = c
                break
        else:
            return cur


def make_witness(n, edges, root_order, dep_orders, guards, script, abort=None):
    return {"n": n, "edges": [list(e) for e in edges], "root_order": list(root_order),
            "dep_orders": [list(d) for d in dep_orders], "guards": list(guards),
            "script": {str(k): list(v) for k, v in script.items()}, "abort": abort}


def run_w(x):
    return run_case(x["n"], [tuple(e) for e in x["edges"]], x["root_order"], x["dep_orders"],
                    x["guards"], {int(k): v for k, v in x["script"].items()}, abort=x.get("abort"))


def record(acc, sub, detail, w):
    if acc.want_violation(sub):
        s = shrink(w, sub)
        r, _ = run_w(s)
        acc.violation(sub, sig_of(sub, s), s, "%s\nwitness: %s" % (r[1] if r else detail, json.dumps(s)))
    else:
        acc.count_violation(sub)


def run_shard(desc, acc):
    if desc["mode"] == "interp":
        run_guard_family(acc)
        run_long_chains(acc)
        return run_interp_binding(desc, acc)
    n, d = desc["n"], desc["d"]
    mod, rem = desc["mod"], desc["rem"]
    mode = desc["mode"]
    states = set()
    for di, edges in enumerate(dags(n)):
        if di % mod != rem:
            continue
        if acc.out_of_time():
            acc.cap("time cap in shard %r" % desc)
            return
        roots, per = orders_for(n, edges)
        all_orders = itertools.product(itertools.permutations(roots), *per)
        if mode == "n5":
            all_orders = list(itertools.islice(all_orders, 401))
            if len(all_orders) > 400:
                acc.cap("n=5: more than 400 iteration orders for some DAGs, first 400 explored")
                all_orders = all_orders[:400]
        for oi, orders in enumerate(all_orders):
            root_order, dep_orders = orders[0], orders[1:]
            for guards in guard_valuations(n, full=(n <= 4)):
                if mode == "d2only":
                    scripts = (s for s in scripts_for(n, guards, 2) if len(s) == 2)
                elif mode == "n5":
                    if all(guards) and oi < 24:
                        scripts = scripts_for(n, guards, 1)
                    else:
                        scripts = [{}]
                else:
                    scripts = scripts_for(n, guards, d)
                if mode == "full":
                    # steps cut short at every possible point, followed by a complete step
                    for ab in range(n):
                        if not guards[ab]:
                            continue
                        acc.evaluations += 1
                        r, info = run_case(n, edges, root_order, dep_orders, guards, {}, abort=ab)
                        acc.transitions += info["transitions"]
                        acc.traces += 1
                        acc.nontrivial += 1
                        if r is not None:
                            record(acc, r[0], r[1], make_witness(n, edges, root_order, dep_orders, guards, {}, ab))
                for script in scripts:
                    acc.evaluations += 1
                    r, info = run_case(n, edges, root_order, dep_orders, guards, script)
                    acc.transitions += info["transitions"]
                    acc.traces += 1
                    states |= {(n, di) + (tuple(sorted(a)), b) for a, b in info["states"]}
                    if r is not None:
                        record(acc, r[0], r[1], make_witness(n, edges, root_order, dep_orders, guards, script))
                        continue
                    tr = info["trace"]
                    acc.outcome(json.dumps([n, di, tr]))
                    if script or [t for t in tr if t[0] == "c"] != ["cs%d" % i for i in range(n)]:
                        acc.nontrivial += 1
                    if acc.evaluations % 20000 == 7:
                        acc.sample({"n": n, "edges(i depends on j)": edges, "root_order": root_order,
                                    "dep_orders": dep_orders, "guards": guards, "requests": script,
                                    "callback_trace": tr})
        acc.states += len(states)
        states = set()


def run_interp_binding(desc, acc):
    """Every DAG n<=4 x all guard valuations through the real interpreter (roots = phase.depends_on)."""
    from dagrt.exec_numpy import NumpyInterpreter
    from dagrt.language import Assign, DAGCode, ExecutionPhase

    class Rec(NumpyInterpreter):
        def evaluate_condition(self, stmt):
            self.rec.append("c" + stmt.id)
            return super().evaluate_condition(stmt)

        def exec_Assign(self, stmt):
            self.rec.append("x" + stmt.id)
            return super().exec_Assign(stmt)

    for n in range(1, desc["n"] + 1):
        for edges in dags(n):
            deps, _ = closure_of(n, edges)
            for guards in guard_valuations(n, True):
                stmts = [Assign(id="s%d" % i, assignee="x%d" % i, assignee_subscript=(), expression=i,
                                condition=guards[i], depends_on=["s%d" % j for j in deps[i]])
                         for i in range(n)]
                if n >= 2 and all(guards):
                    # one no-op statement in the last position (statement kind without a guard)
                    from dagrt.language import Nop
                    stmts[-1] = Nop(id="s%d" % (n - 1), depends_on=["s%d" % j for j in deps[n - 1]])
                dag = DAGCode({"ph": ExecutionPhase("ph", "ph", stmts)}, "ph")
                it = Rec(dag, {})
                it.set_up(t_start=0, dt_start=1, context={})
                acc.evaluations += 1
                for step in range(2):
                    it.rec = []
                    try:
                        list(it.run_single_step())
                    except Exception as e:
                        roots = [i for i in range(n) if not any(b == i for _, b in edges)]
                        w = make_witness(n, edges, roots, [deps[i] for i in range(n)], guards, {})
                        w["via"] = "interpreter"
                        w["kinds"] = [type(st).__name__ for st in stmts]
                        sub = "exception(%s)" % type(e).__name__
                        acc.violation(sub + "(interpreter)", "C04/%s(interpreter):kinds=%s" % (
                            sub, sorted(set(w["kinds"]))), w, "run_single_step raised %s: %s on a well-formed "
                            "phase with statement kinds %s" % (type(e).__name__, e, w["kinds"]))
                        break
                    cs = [t[1:] for t in it.rec if t[0] == "c"]
                    xs = [t[1:] for t in it.rec if t[0] == "x"]
                    sub = None
                    is_nop = [type(st).__name__ == "Nop" for st in stmts]
                    if sorted(cs) != ["s%d" % i for i in range(n)]:
                        sub, det = "visit-once", "interpreter step %d visited %s" % (step, cs)
                    elif sorted(xs) != ["s%d" % i for i in range(n) if guards[i] and not is_nop[i]]:
                        sub, det = "exec-iff-guard", "interpreter executed %s, guards %s" % (xs, guards)
                    else:
                        pos = {s: k for k, s in enumerate(cs)}
                        for i in range(n):
                            for j in deps[i]:
                                if pos["s%d" % j] > pos["s%d" % i]:
                                    sub, det = "dep-order", "interpreter visited s%d before s%d" % (i, j)
                    acc.transitions += len(cs)
                    if sub:
                        roots = [i for i in range(n) if not any(b == i for _, b in edges)]
                        w = make_witness(n, edges, roots, [deps[i] for i in range(n)], guards, {})
                        w["via"] = "interpreter"
                        acc.violation(sub + "(interpreter)", "C04/%s(interpreter):%s" % (sub, json.dumps(w)),
                                      w, det)
                        break
                acc.traces += 1


def run_long_chains(acc, only=None):
    """size corner: dependency chains and fans far above the enumerated sizes, through the real interpreter"""
    from dagrt.exec_numpy import NumpyInterpreter
    from dagrt.language import Assign, DAGCode, ExecutionPhase

    class Rec(NumpyInterpreter):
        def exec_Assign(self, stmt):
            self.rec.append(stmt.id)
            return super().exec_Assign(stmt)
    for shape, n in (("chain", 1500), ("chain", 4000), ("fan-in", 1500), ("ladder", 1200)):
        if only is not None and only != [shape, n]:
            continue
        def deps(i):
            if shape == "chain":
                return ["s%d" % (i - 1)] if i else []
            if shape == "fan-in":
                return ["s%d" % j for j in range(n - 1)] if i == n - 1 else []
            return ["s%d" % j for j in (i - 1, i - 2) if j >= 0]
        stmts = [Assign(id="s%d" % i, assignee="<p>x", assignee_subscript=(), expression=i, depends_on=deps(i))
                 for i in range(n)]
        # stored in reverse, so that nothing can rely on the list order
        dag = DAGCode({"ph": ExecutionPhase("ph", "ph", list(reversed(stmts)))}, "ph")
        it = Rec(dag, {})
        it.set_up(t_start=0, dt_start=1, context={})
        acc.evaluations += 1
        problem = None
        for step in range(2):
            it.rec = []
            try:
                with kernel.time_limit(300):
                    list(it.run_single_step())
            except BaseException as e:
                problem = "run_single_step raised %s: %s" % (type(e).__name__, str(e)[:150])
                break
            pos = {sid: k for k, sid in enumerate(it.rec)}
            if sorted(it.rec) != sorted("s%d" % i for i in range(n)):
                problem = "%d statements executed, %d distinct, expected each of %d once" % (
                    len(it.rec), len(set(it.rec)), n)
                break
            bad = [(i, d) for i in range(n) for d in deps(i) if pos[d] > pos["s%d" % i]]
            if bad:
                problem = "s%d executed before its dependency %s" % bad[0]
                break
            acc.transitions += n
        if problem:
            acc.violation("large-phase(interpreter)", "C04/large-phase(interpreter):%s of %d statements" % (shape, n),
                          {"via": "interpreter", "large": [shape, n]},
                          "well-formed phase: a %s of %d statements: %s" % (shape, n, problem))
        acc.traces += 1


def run_guard_family(acc, only=None):
    """Guards that are expressions over a variable the step itself changes: chains of <= 4 statements, each either F
    (unguarded: <p>g <- -<p>g) or E (guarded by the SAME expression <p>g > 0: <p>e_k <- 1).  A guard is evaluated when
    its statement is visited, on the values of that moment."""
    import itertools as _it
    from dagrt.exec_numpy import NumpyInterpreter
    from dagrt.language import Assign, DAGCode, ExecutionPhase
    from pymbolic.primitives import Comparison, Product, Variable
    g = Variable("<p>g")

    class Rec(NumpyInterpreter):
        def exec_Assign(self, stmt):
            self.rec.append(stmt.id)
            return super().exec_Assign(stmt)

    for n in (2, 3, 4):
        for seq in _it.product("EF", repeat=n):
            if seq.count("E") < 2 or "F" not in seq:
                continue
            for g0 in (1, -1):
                if only is not None and only != ["".join(seq), g0]:
                    continue
                stmts = []
                for k, role in enumerate(seq):
                    dep = ["s%d" % (k - 1)] if k else []
                    if role == "F":
                        stmts.append(Assign(id="s%d" % k, assignee="<p>g", assignee_subscript=(),
                                            expression=Product((-1, g)), depends_on=dep))
                    else:
                        stmts.append(Assign(id="s%d" % k, assignee="<p>e%d" % k, assignee_subscript=(), expression=1,
                                            condition=Comparison(g, ">", 0), depends_on=dep))
                init = [Assign(id="i0", assignee="<p>g", assignee_subscript=(), expression=g0)]
                dag = DAGCode({"init": ExecutionPhase("init", "ph", init), "ph": ExecutionPhase("ph", "ph", stmts)},
                              "init")
                it = Rec(dag, {})
                it.set_up(t_start=0, dt_start=1, context={})
                it.rec = []
                list(it.run_single_step())
                cur = g0
                acc.evaluations += 1
                for step in range(2):
                    want = []
                    for k, role in enumerate(seq):
                        if role == "F":
                            cur = -cur
                            want.append("s%d" % k)
                        elif cur > 0:
                            want.append("s%d" % k)
                    it.rec = []
                    try:
                        list(it.run_single_step())
                        got = list(it.rec)
                    except Exception as e:
                        got = ["%s: %s" % (type(e).__name__, e)]
                    acc.transitions += n
                    if got != want:
                        w = {"via": "interpreter", "guard_family": ["".join(seq), g0]}
                        acc.violation("exec-iff-guard(interpreter)",
                                      "C04/exec-iff-guard(interpreter):guard on a variable the step changes, chain %s g0=%d"
                                      % ("".join(seq), g0), w,
                                      "chain %s (F: <p>g <- -<p>g, E: guarded by <p>g > 0), <p>g = %d before the first step: "
                                      "step %d executed %s, expected %s" % ("".join(seq), g0, step + 1, got, want))
                        break
                acc.traces += 1


def replay(witness):
    w = witness
    if "large" in w:
        acc = kernel.Acc()
        run_long_chains(acc, only=w["large"])
        return acc.violations
    if "guard_family" in w:
        acc = kernel.Acc()
        run_guard_family(acc, only=w["guard_family"])
        return acc.violations
    if w.get("via") == "interpreter":
        acc = kernel.Acc()
        # re-run only this DAG through the interpreter binding
        global _DAGS
        saved = dict(_DAGS)
        try:
            _DAGS = {k: [] for k in range(1, 6)}
            _DAGS[w["n"]] = [[tuple(e) for e in w["edges"]]]
            run_interp_binding({"n": w["n"]}, acc)
        finally:
            _DAGS = saved
        return acc.violations
    r, _ = run_w(w)
    if r is None:
        return []
    s = shrink(w, r[0])
    r2, _ = run_w(s)
    return [{"sub": r[0], "sig": sig_of(r[0], s), "witness": s,
             "detail": "%s\nwitness: %s" % (r2[1] if r2 else r[1], json.dumps(s))}]
