"""C18 -- constant hoisting preserves value and hoists only constants.

Every expression with <= N operators over {sum (2/3 operands), product (2/3 operands), power,
calls with 1-2 arguments} and atoms {a, b, y, 2} (and, one operator less, {a, y, 0, 1, 2}) is given to the real collapse_constants with
EVERY subset of its variables declared free; the hoisted assignments are substituted back and
compared with the original by ring normal form (violation only with a concrete valuation).
"""

import itertools
import json

import pymbolic.primitives as P

from mc import kernel, nf

ID = "C18"
LEVEL = "exploration"
TECHNIQUE = ("bounded exhaustive enumeration of expressions (<= N operators) x all free-variable subsets; substitute-back "
             "oracle by polynomial normal form with witness valuations; callback accounting")
RULE = ("expressions are all trees with <= N operators (3-operand sums/products: all atoms, or two atoms and one non-atomic operand), generated once each "
        "(dedup by structure); each is crossed with every subset of its variables; non-trivial = cases in which at least "
        "one subexpression was hoisted; distinct_outcomes = distinct (rewritten expression, hoisted assignments) texts")
ASSUMPTIONS = ["pymbolic.substitute is trusted for substituting the hoisted assignments back"]
LEVEL_TEXT = ("The complete expression space below the operator bound is crossed with all free sets and run through the real "
              "collapse_constants; value preservation is decided exactly (normal form) and confirmed concretely, hoisted "
              "expressions are scanned for free variables, and new-variable/assignment callbacks are counted.")
LEVEL_NOTE = "Trusted: nf.py, pymbolic.substitute."

V = P.Variable
ATOMS = [V("a"), V("b"), V("y"), 2]


def level1(atoms):
    out = []
    for x, y in itertools.product(atoms, repeat=2):
        out += [P.Sum((x, y)), P.Product((x, y)), P.Call(V("f"), (x, y))]
    for x in atoms:
        out += [P.Call(V("f"), (x,)), P.Call(V("g"), (x,)), P.Power(x, 2)]
    for x, y, z in itertools.product(atoms, repeat=3):
        out += [P.Sum((x, y, z)), P.Product((x, y, z))]
    return out


def combine(big, small, nary=True):
    for x in big:
        yield P.Call(V("f"), (x,))
        yield P.Power(x, 2)
    pairs = itertools.chain(itertools.product(big, small), itertools.product(small, big))
    for x, y in pairs:
        yield P.Sum((x, y))
        yield P.Product((x, y))
        yield P.Call(V("g"), (x, y))


def nary_extras(big, small, pairs=2):
    """n-ary nodes with one non-atomic operand (what flattened user input looks like): the operand in every position"""
    a, b = small[0], small[1]
    for x in big:
        for p, q in ((a, b), (a, small[-1]))[:pairs]:
            for kids in ((p, q, x), (p, x, q), (x, p, q)):
                yield P.Sum(kids)
                yield P.Product(kids)


_LV = {}


NARY_UPTO = {"quick": 2, "thorough": 3}      # operators below an n-ary node with a non-atomic operand
_TIER = ["quick"]


def levels(n, atoms_key="full"):
    """lv[k] = list of expressions with exactly k operators"""
    key = (n, atoms_key, _TIER[0])
    if key in _LV:
        return _LV[key]
    atoms = {"full": ATOMS, "noconst": [V("a"), V("b"), V("y")],
             "consts": [V("a"), V("y"), 0, 1, 2]}[atoms_key]
    lv = {0: list(atoms), 1: level1(atoms)}
    for k in range(2, n + 1):
        seen = set()
        out = []

        def add(e):
            r = repr(e)
            if r not in seen:
                seen.add(r)
                out.append(e)
        # one child with k-1 operators and an atom / unary
        for e in combine(lv[k - 1], lv[0]):
            add(e)
        # two non-atomic children: sizes i + j = k - 1, i, j >= 1
        for i in range(1, k - 1):
            j = k - 1 - i
            if j < 1:
                continue
            for x in lv[i]:
                for y in lv[j]:
                    add(P.Sum((x, y)))
                    add(P.Product((x, y)))
                    add(P.Call(V("g"), (x, y)))
        lv[k] = out
    _LV[key] = lv
    return lv


def run_collapse(expr, free):
    from dagrt.expression import collapse_constants
    handed, assigned = [], []

    def new_var():
        v = V("h%d" % len(handed))
        handed.append(v)
        return v

    def assign(var, e):
        assigned.append((var, e))
    res = collapse_constants(expr, [V(n) for n in free], assign, new_var)
    return res, handed, assigned


def check(expr, free):
    from pymbolic import substitute
    try:
        with kernel.time_limit(120):
            res, handed, assigned = run_collapse(expr, free)
    except kernel.Budget:
        return ("budget", "collapse_constants did not return within 120 s"), None
    except Exception as ex:
        return ("exception(%s)" % type(ex).__name__, "%s: %s" % (type(ex).__name__, ex)), None
    out = "%s | %s" % (res, "; ".join("%s=%s" % (v, e) for v, e in assigned))
    names = [v.name for v, _ in assigned]
    hn = {v.name for v in handed}
    if len(set(names)) != len(names):
        return ("assigned-twice", "a new variable is assigned more than once: %s" % out), out
    if not set(names) <= hn:
        return ("assigned-foreign", "assignment to a variable that new_var_func did not hand out: %s" % out), out
    used = set()
    for e in [res] + [e for _, e in assigned]:
        vs, fs = nf.variables(e)
        used |= (set(vs) | set(fs)) & hn
    if used - set(names):
        return ("never-assigned", "new variable(s) %s occur in the result but are never assigned: %s" % (
            sorted(used - set(names)), out)), out
    for v, e in assigned:
        vs, fs = nf.variables(e)
        bad = (set(vs) | set(fs)) & set(free)
        if bad:
            return ("hoisted-mentions-free", "hoisted %s = %s mentions free variable(s) %s" % (v, e, sorted(bad))), out
    amap = {v.name: e for v, e in assigned}
    back = res
    for _ in range(len(amap) + 2):
        back = substitute(back, amap)
    if not nf.same(back, expr):
        w = nf.witness(back, expr)
        if w is not None:
            return ("value", "original %s, free %s: rewritten %s; substituted back %s differs at %s" % (
                expr, free, out, back, json.dumps(w, default=repr))), out
    return None, (out if assigned else "")


def cases(tier):
    _TIER[0] = tier
    n = 3 if tier == "quick" else 4
    lv = levels(n if tier == "quick" else 3)
    for k in range(0, 4):
        for e in lv[k]:
            yield e
    for k in range(1, NARY_UPTO[tier] + 1):
        for e in nary_extras(lv[k], lv[0], 2 if (k == 1 or tier == "thorough") else 1):
            yield e
    seen = {repr(e) for k in range(0, 3) for e in lv[k]}
    lvc = levels(2 if tier == "quick" else 3, "consts")
    for k in sorted(lvc):
        for e in lvc[k]:
            if repr(e) not in seen:
                yield e
    if tier == "thorough":
        lv4 = levels(4, "noconst")
        for e in lv4[4]:
            yield e


def bounds(tier):
    _TIER[0] = tier
    lv = levels(3)
    lvc = levels(2 if tier == "quick" else 3, "consts")
    b = {"operators<=3": sum(len(lv[k]) for k in range(4)), "atoms": "a, b, y, 2",
         "operators<=%d with the literals 0 and 1" % (2 if tier == "quick" else 3): sum(len(v) for v in lvc.values()),
         "n-ary": "3-operand sums/products over atoms, and (operand with <= %d operators) with one non-atomic operand in each position" % NARY_UPTO[tier],
         "free_sets": "every subset of the expression's variables (function symbols excluded)"}
    if tier == "thorough":
        b["operators=4"] = "all over atoms a, b, y (no constant)"
    return b


def shards(tier, seed):
    m = 64 if tier == "quick" else 512
    return [{"tier": tier, "mod": m, "rem": r} for r in range(m)]


def subsets(names):
    for r in range(len(names) + 1):
        for c in itertools.combinations(names, r):
            yield list(c)


def shrink(expr, free, sub):
    def kids(x):
        if isinstance(x, (P.Sum, P.Product)):
            return list(x.children)
        if isinstance(x, P.Call):
            return list(x.parameters)
        if isinstance(x, P.Power):
            return [x.base]
        return []
    changed = True
    while changed:
        changed = False
        for c in kids(expr):
            if isinstance(c, int):
                continue
            vs, _ = nf.variables(c)
            fr = [f for f in free if f in vs]
            r, _ = check(c, fr)
            if r is not None and r[0] == sub:
                expr, free = c, fr
                changed = True
                break
    return expr, free


def run_shard(desc, acc):
    for i, e in enumerate(cases(desc["tier"])):
        if i % desc["mod"] != desc["rem"]:
            continue
        if (i & 0xff) == 0 and acc.out_of_time():
            acc.cap("time cap in shard %r" % desc)
            return
        vs, _ = nf.variables(e)
        for free in subsets(vs):
            acc.evaluations += 1
            r, out = check(e, free)
            if r is not None:
                sub = r[0]
                if acc.want_violation(sub):
                    e2, f2 = shrink(e, free, sub)
                    r2, _ = check(e2, f2)
                    acc.violation(sub, "C18/%s:%s free=%s" % (sub, e2, f2), {"expression": repr(e2), "free": f2},
                                  (r2 or r)[1])
                else:
                    acc.count_violation(sub)
                continue
            if out:
                acc.nontrivial += 1
                acc.outcome(out)
                if i % 3000 == 0:
                    acc.sample({"expression": str(e), "free": free, "rewritten | hoisted": out})


def replay(witness):
    e = eval(witness["expression"], {k: getattr(P, k) for k in dir(P)})
    r, _ = check(e, witness["free"])
    if r is None:
        return []
    return [{"sub": r[0], "sig": "C18/%s:%s free=%s" % (r[0], e, witness["free"]), "witness": witness,
             "detail": r[1]}]
