"""C01 -- interpreter and generated Python stepper both implement the written program.

All method descriptions init -> main -> aux whose `main` body is a builder program with
<= k alphabet items (nesting <= 2) are built with the real CodeBuilder and stepped by
(1) the program-order reference R-prog, (2) NumpyInterpreter, (3) the class emitted by
the Python code generator, under several inputs and run modes; the three observation
sequences (events, persistent store and next phase after every step, kind of raised
error) must agree element-wise.
"""

import itertools
import json

from mc import kernel, prog
from mc.refexpr import Undefined

ID = "C01"
LEVEL = "model_checking"
TECHNIQUE = ("bounded exhaustive enumeration of builder programs (alphabet x length x nesting) x inputs x run "
             "modes; every step of every run is compared between a program-order reference model, the real "
             "interpreter and the real generated Python class")
RULE = ("every body with <= k alphabet items (if/else blocks count as items, nesting <= 2) over the C01 alphabet is "
        "generated exactly once; states = (description, input, mode, step index) store snapshots compared, "
        "transitions = steps executed by the reference; a description is non-trivial when its reference "
        "observations differ from those of the empty body; out-of-domain = reads a never-assigned variable")
ASSUMPTIONS = [
    "values are small exact numbers; programs beyond k items / 5 steps are not explored",
    "user functions are pure; the relative order of independent calls is not observed",
    "dagrt.expression.parse is trusted to read the alphabet strings for the reference (checked separately in C19)",
]
LEVEL_TEXT = ("Explicit-state comparison of three steppers on every description in a bounded program space: each "
              "reference trace (program order) is replayed step by step against the interpreter and the generated "
              "class, observing events, the full persistent store and next_phase after every step.")
LEVEL_NOTE = ("Trusted: the ~150-line reference executor/evaluator and the harness user functions. Bounded by alphabet, "
              "k and 5 steps; numeric rounding is outside the alphabet.")

# ---- alphabet -----------------------------------------------------------------
# atomic items; each expands to one or more builder calls (macros keep arrays fully written)

def A(lhs, rhs, loops=()):
    return ["A", lhs, rhs, [list(l) for l in loops]]


ARR_INIT = [A("<p>r", "<builtin>array(3)"), A("<p>r[i]", "i + 1", [("i", "0", "3")])]

ATOMS = {
    # scalars
    "a+=1": [A("<p>a", "<p>a + 1")],
    "b=2a": [A("<p>b", "<p>a * 2")],
    "a=b-a": [A("<p>a", "<p>b - <p>a")],
    "u=a+y": [A("u", "<p>a + <state>y")],
    "b=u": [A("<p>b", "u")],
    "u=3": [A("u", "3")],
    "a=ifexp": [A("<p>a", "(<p>b if <p>a > 1 else -<p>b - 1)")],
    # conditional expressions nested in the then / else / condition position of another
    "a=ifexp-in-then": [A("<p>a", "((1 if <p>b > 0 else 2) if <p>a > 1 else 3)")],
    "a=ifexp-in-else": [A("<p>a", "(3 if <p>a > 1 else (1 if <p>b > 1 else 2))")],
    "a=ifexp-in-cond": [A("<p>a", "(5 if (<p>b if <p>a > 1 else -1) > 0 else 6)")],
    "a=(a**2)**3": [A("<p>a", "(<p>a**2)**3")],
    "b=(-1)**a": [A("<p>b", "(-1)**<p>a")],
    "b=a-(b-1)": [A("<p>b", "<p>a - (<p>b - 1)")],
    "b=-(a+1)*2": [A("<p>b", "-(<p>a + 1)*2")],
    "a=a/2": [A("<p>a", "<p>a / 2")],
    "a=neg": [A("<p>a", "-3")],
    "a=0": [A("<p>a", "0")],
    "b=2": [A("<p>b", "2")],
    "b=inf": [A("<p>b", ["py", "inf"])],
    "b=-0.5": [A("<p>b", ["py", "-0.5"])],
    "t+=dt": [A("<t>", "<t> + <dt>")],
    "dt=dt/2": [A("<dt>", "<dt> / 2")],
    "y=y+a": [A("<state>y", "<state>y + <p>a")],
    "a:b=1": [A("<p>a_b", "<p>a + 10"), A("`<p>a:b`", "<p>a + 20"), A("<p>a", "<p>a_b - `<p>a:b`")],
    # arrays
    "r=init": ARR_INIT,
    "r[i]=a*i": [A("<p>r[i]", "<p>a * i", [("i", "0", "3")])],
    "r[i]=..n": [A("<p>r[i]", "i + 7", [("i", "0", "<p>n")])],
    # a loop whose bound is assigned under the same guard as the loop: with the guard false the bound is unset, and
    # nothing may look at it
    "if{nn=2;r[i]=..nn}": [["IF", ["s", "<p>a > 1"], [A("nn", "2"), A("<p>r[i]", "i + 5", [("i", "0", "nn")])], None]],
    "n=2": [A("<p>n", "2")],
    "n=0": [A("<p>n", "0")],
    "r[zero-trip]": [A("<p>r[i]", "9", [("i", "2", "1")])],
    "r[i]+=j": [A("<p>r[i]", "<p>r[i] + j + 1", [("i", "0", "3"), ("j", "0", "i")])],
    "a=r[1]": [A("<p>a", "<p>r[1]")],
    "r[n-1]=a": [A("<p>r[<p>n - 1]", "<p>a")],
    "r[1]=b": [A("<p>r[1]", "<p>b")],
    "b=r[n-1]+r[0]": [A("<p>b", "<p>r[<p>n - 1] + <p>r[0]")],
    # calls
    "u=f(a)": [A("u", "<func>f(<p>a)")],
    "u,v=g(a,b)": [A(["u", "v"], "<func>g(<p>a, <p>b)"), A("<p>a", "u * 10 + v")],
    "h(a)": [A([], "<func>h(<p>a)")],
    "a=1+f(f(b))": [A("<p>a", "1 + <func>f(<func>f(<p>b))")],
    "b=k(a,y=b)": [A("<p>b", "<func>k(<p>a, y=<p>b)")],
    "b=k(y=a,x=b)": [A("<p>b", "<func>k(y=<p>a, x=<p>b)")],
    "b=norm_inf(r)": [A("<p>b", "<builtin>norm_inf(<p>r)")],
    "b=norm_1(x=r)": [A("<p>b", "<builtin>norm_1(x=<p>r)")],
    "b=len(r)": [A("<p>b", "<builtin>len(<p>r)")],
    "b=dot(r,r)": [A("<p>b", "<builtin>dot_product(<p>r, <p>r)")],
    "b=dot(x=r,y=r)": [A("<p>b", "<builtin>dot_product(x=<p>r, y=<p>r)")],
    "b=a+len(x=r)": [A("<p>b", "<p>a + <builtin>len(x=<p>r)")],
    "u=isnan(a)": [A("u", "<builtin>isnan(<p>a)"), A("<p>b", "(1 if u else 2)")],
    "r=abs(-r)": [A("<p>r", "<builtin>elementwise_abs(-<p>r)")],
    "r=array(n=3)": [A("<p>r", "<builtin>array(n=3)"), A("<p>r[i]", "i * i", [("i", "0", "3")])],
    # externally visible
    "yield a": [["Y", "<p>a", "y", "<t> + <dt>", "final"]],
    "yield u": [["Y", "u + 1", "aux", "<t>", "mid"]],
    "fail": [["FAIL"]],
    "switch aux": [["SW", "aux"]],
    "switch init": [["SW", "init"]],
    "restart": [["RESTART"]],
    "raise1": [["RAISE", "HarnessError1", "boom"]],
}

CONDS = {
    "s:a>1": ["s", "<p>a > 1"],
    "e:b<=a": ["e", "<p>b <= <p>a"],
    "s3:a<b": ["s3", "<p>a", "<", "<p>b"],
    "e3:y==0": ["e3", "<state>y", "==", "0"],
    "s3:b>=2": ["s3", "<p>b", ">=", "2"],
    "s:and": ["s", "<p>a > 0 and <p>b > 0"],
    "s:not": ["s", "not <p>a > 1"],
    "s:a": ["s", "<p>a"],                 # a bare variable as condition (truthiness), overwritten inside the block
    "e:b-2": ["e", "<p>b - 2"],
}

# reduced alphabets for the deeper levels
CORE_ATOMS = ["a+=1", "b=2a", "u=a+y", "b=u", "a=ifexp", "r[i]=..n", "if{nn=2;r[i]=..nn}", "n=0", "a=r[1]", "u=f(a)",
              "yield a", "fail", "switch aux", "restart", "raise1", "t+=dt", "y=y+a"]
CORE_CONDS = ["s:a>1", "s3:a<b", "e3:y==0", "s:a"]
MID_ATOMS = CORE_ATOMS + ["a=0", "a=b-a", "u=3", "r[i]=a*i", "n=2", "r[zero-trip]", "r[n-1]=a", "b=r[n-1]+r[0]",
                          "u,v=g(a,b)", "b=k(a,y=b)", "yield u", "switch init", "dt=dt/2"]

INIT = [A("<p>a", "<state>y"), A("<p>b", "1"), A("<p>n", "3"), A("<p>c", "0")] + ARR_INIT
AUX = [A("<p>c", "<p>c + 1"),
       ["Y", "<p>a * 10 + <p>c", "aux", "<t>", "auxid"],
       ["IF", ["s", "<p>c == 2"], [["FAIL"]], None]]


def f_f(x):
    return 2 * x + 1


def f_g(x, y):
    return x + y, x - y


def f_h(x):
    return None


def f_k(x, y):
    return 10 * x + y


FUNCS = {"<func>f": f_f, "<func>g": f_g, "<func>h": f_h, "<func>k": f_k}

INPUTS = [
    {"t": 0, "dt": 1, "state": {"y": 0}},
    {"t": 0, "dt": 1, "state": {"y": 2}},
    {"t": 1.5, "dt": 0.5, "state": {"y": -0.5}},      # negative, fractional state; non-zero start time
]
RUNS = [
    (0, ("run", {"max_steps": 4})),
    (1, ("run", {"max_steps": 5})),
    (1, ("run", {"t_end": 2})),
    (0, ("single", 3)),
    (2, ("run", {"max_steps": 3})),
    (2, ("run", {"t_end": 2.5})),
]


def bounds(tier):
    if tier == "quick":
        return {"k_full_alphabet": 2, "k_mid_alphabet": 3, "atoms": len(ATOMS), "conds": len(CONDS),
                "mid_atoms": len(MID_ATOMS), "core_conds": len(CORE_CONDS), "max_nesting": 2,
                "control_skeletons": "all bodies with 4-5 items over 3 atoms x 2 conditions",
                "phase_names": "8 names that are not plain identifiers x all bodies <= 1 item over the mid alphabet",
                "inputs": 3, "runs_per_description": len(RUNS), "max_steps": 5, "horizon_events": 16}
    return {"k_full_alphabet": 3, "k_core_alphabet": 4, "atoms": len(ATOMS), "conds": len(CONDS),
            "control_skeletons": "all bodies with 4-5 items over 4 atoms x 2 conditions",
            "core_atoms": len(CORE_ATOMS), "core_conds": len(CORE_CONDS), "max_nesting": 2,
            "inputs": 3, "runs_per_description": len(RUNS), "max_steps": 5, "horizon_events": 16}


# ---- enumeration of bodies (as *shapes* over item names) -----------------------------
# shape node: atom name (str) | ["if", cond, [nodes], [nodes] or None]

def gen_bodies(k, atoms, conds, depth=0, max_depth=2):
    """All node lists of total size exactly k (atom = 1, if = 1 + sizes, else adds 0 but needs >= 1)."""
    if k == 0:
        yield []
        return
    for first_size in range(1, k + 1):
        for first in gen_nodes(first_size, atoms, conds, depth, max_depth):
            for rest in gen_bodies(k - first_size, atoms, conds, depth, max_depth):
                yield [first] + rest


def gen_nodes(size, atoms, conds, depth, max_depth):
    if size == 1:
        for a in atoms:
            yield a
        return
    if depth >= max_depth:
        return
    inner = size - 1
    for c in conds:
        # if without else
        for body in gen_bodies(inner, atoms, conds, depth + 1, max_depth):
            yield ["if", c, body, None]
        # if with else: split inner into then (>=1) and else (>=1)
        for tsz in range(1, inner):
            for tb in gen_bodies(tsz, atoms, conds, depth + 1, max_depth):
                for eb in gen_bodies(inner - tsz, atoms, conds, depth + 1, max_depth):
                    yield ["if", c, tb, eb]


def expand(shape):
    body = []
    for n in shape:
        if isinstance(n, str) and n.startswith("@phase:"):
            continue
        if isinstance(n, str):
            body.extend(ATOMS[n])
        else:
            body.append(["IF", CONDS[n[1]], expand(n[2]), expand(n[3]) if n[3] is not None else None])
    return body


def shape_str(shape):
    out = []
    for n in shape:
        if isinstance(n, str) and n.startswith("@phase:"):
            out.append("[phase %r]" % n[7:])
        elif isinstance(n, str):
            out.append(n)
        else:
            s = "if(%s){%s}" % (n[1], shape_str(n[2]))
            if n[3] is not None:
                s += "else{%s}" % shape_str(n[3])
            out.append(s)
    return "; ".join(out)


def shards(tier, seed):
    out = []
    nsh = 64 if tier == "quick" else 256
    # "ctl": control skeletons (nesting 2, if/else shapes up to 5 items) over a tiny atom set
    plan = [("full", 2), ("mid", 3), ("ctl3", 5), ("names", 1)] if tier == "quick" else \
        [("full", 3), ("core", 4), ("ctl4", 5), ("names", 2)]
    for space, k in plan:
        for r in range(nsh):
            out.append({"space": space, "k": k, "mod": nsh, "rem": r})
    return out


def space_iter(space, k):
    if space == "names":
        for nm in PHASE_NAMES[1:]:
            for kk in range(0, k + 1):
                for b in gen_bodies(kk, MID_ATOMS, CORE_CONDS):
                    yield ["@phase:" + nm] + b
        return
    atoms = {"full": list(ATOMS), "mid": MID_ATOMS, "core": CORE_ATOMS,
             "ctl3": ["a+=1", "b=2a", "yield a"], "ctl4": ["a+=1", "b=2a", "yield a", "fail"]}[space]
    conds = list(CONDS) if space == "full" else CORE_CONDS
    lo = 0
    if space.startswith("ctl"):
        conds = ["s:a>1", "e3:y==0"]
        lo = 4
    for kk in range(lo, k + 1):
        yield from gen_bodies(kk, atoms, conds)


# ---- oracle -----------------------------------------------------------------------------

_EMPTY_OBS = {}


# "m|x": the enumerated phase is called m and the third phase x (two names that are equal once mangled into identifiers)
PHASE_NAMES = ["main", "stage_1", "main-2", "a b", "1st", "if", "it's", "Main", "aux_0", "a-b|a_b", "a b|a.b", "x|_x"]


def describe(shape, main_name=None):
    """main_name: name of the enumerated phase (the names slice checks names that are not identifiers)"""
    if shape and isinstance(shape[0], str) and shape[0].startswith("@phase:"):
        main_name = shape[0][7:]
        shape = shape[1:]
    body = expand(shape)
    m = main_name or "main"
    x = "aux"
    if "|" in m:
        m, x = m.split("|")
    if m != "main":
        body = body + [["IF", ["s", "<p>a > 40"], [["SW", m]], None]]
    if x != "aux":
        def ren(ops):
            return [["SW", x] if op == ["SW", "aux"] else
                    ["IF", op[1], ren(op[2]), ren(op[3]) if op[3] is not None else None] if op[0] == "IF" else op
                    for op in ops]
        body = ren(body)
    return [("init", INIT, m), (m, body, x), (x, AUX, m)]


def check_description(shape, acc=None):
    """Returns list of (sub, detail, where) failures (at most one per backend) or "excluded"."""
    phases = describe(shape)
    ref_phases = {n: (b, nx) for n, b, nx in phases}
    # reference first: domain test
    refs = []
    try:
        for inp_i, mode in RUNS:
            refs.append(prog.ref_run(ref_phases, "init", INPUTS[inp_i], mode, FUNCS))
    except Undefined:
        return "excluded", None
    fails = []
    try:
        dag = prog.build_dag(phases, "init")
    except Exception as e:
        return [("builder-raises", "%s: %s" % (type(e).__name__, e), "builder")], refs
    # interpreter
    try:
        gen = prog.GeneratedStepper(dag)
    except Exception as e:
        gen = None
        fails.append(("crash(codegen,%s)" % type(e).__name__, "%s: %s" % (type(e).__name__, e), "codegen"))
    for (inp_i, mode), ref in zip(RUNS, refs):
        inp = INPUTS[inp_i]
        if not any(f[2] == "interp" for f in fails):
            interp = prog.make_interp(dag, FUNCS)
            o = prog.observe_stepper(interp, prog.interp_store, inp, mode)
            ok, idx = prog.obs_agree(ref, o)
            if not ok:
                fails.append((_sub("interp", ref, o, idx), _detail(inp, mode, ref, o, idx), "interp"))
        if gen is not None and not any(f[2] == "codegen" for f in fails):
            obj = gen.new(FUNCS)
            o = prog.observe_stepper(obj, gen.store, inp, mode)
            ok, idx = prog.obs_agree(ref, o, gen.global_map)
            if not ok:
                fails.append((_sub("codegen", ref, o, idx), _detail(inp, mode, ref, o, idx), "codegen"))
        if acc is not None:
            acc.transitions += sum(1 for x in ref if x[0] == "store")
            acc.states += sum(1 for x in ref if x[0] == "store")
            acc.traces += 2
    return fails, refs


def _sub(backend, ref, o, idx):
    a = ref[idx] if idx < len(ref) else ["<end>"]
    b = o[idx] if idx < len(o) else ["<end>"]
    if b[0] == "crash":
        return "crash(%s,%s)" % (backend, b[1])
    kind = a[0] if a[0] == b[0] else "%s/%s" % (a[0], b[0])
    return "%s-vs-ref[%s]" % (backend, kind)


def _detail(inp, mode, ref, o, idx):
    return "input=%s mode=%s first difference at observation %d: reference %s, implementation %s" % (
        json.dumps(inp), json.dumps(mode), idx,
        json.dumps(ref[idx] if idx < len(ref) else "<end>")[:300],
        json.dumps(o[idx] if idx < len(o) else "<end>")[:300])


def shrink_shape(shape, sub):
    """Drop nodes / unwrap ifs while the same sub-oracle still fails."""
    def fails(s):
        r, _ = check_description(s)
        return r != "excluded" and any(f[0] == sub for f in r)

    def cands(s):
        for i in range(len(s)):
            yield s[:i] + s[i + 1:]
            n = s[i]
            if not isinstance(n, str):
                yield s[:i] + n[2] + s[i + 1:]
                if n[3] is not None:
                    yield s[:i] + n[3] + s[i + 1:]
                    yield s[:i] + [["if", n[1], n[2], None]] + s[i + 1:]
                for c in cands(n[2]):
                    if c:
                        yield s[:i] + [["if", n[1], c, n[3]]] + s[i + 1:]
                if n[3] is not None:
                    for c in cands(n[3]):
                        if c:
                            yield s[:i] + [["if", n[1], n[2], c]] + s[i + 1:]
    cur = shape
    while True:
        for c in cands(cur):
            if shape and isinstance(shape[0], str) and shape[0].startswith("@phase:") and (
                    not c or c[0] != shape[0]):
                continue           # the phase name is part of the case
            if fails(c):
                cur = c
                break
        else:
            return cur


def violation_records(shape, fails):
    out = []
    for sub, detail, _where in fails:
        s = shrink_shape(shape, sub)
        r, _ = check_description(s)
        dd = [f for f in (r if r != "excluded" else []) if f[0] == sub]
        if not dd:
            s, dd = shape, [(sub, detail)]
        d = dd[0][1]
        out.append({"sub": sub, "sig": "C01/%s:%s" % (sub, shape_str(s)),
                    "witness": {"shape": s, "found_as": shape_str(shape)},
                    "detail": "body: %s\n%s" % (shape_str(s), d)})
    return out


def run_shard(desc, acc):
    mod, rem = desc["mod"], desc["rem"]
    empty = _empty_obs()
    for i, shape in enumerate(space_iter(desc["space"], desc["k"])):
        if i % mod != rem:
            continue
        if acc.out_of_time():
            acc.cap("time cap in shard %r" % desc)
            return
        acc.evaluations += 1
        r, refs = check_description(shape, acc)
        if r == "excluded":
            acc.excluded += 1
            continue
        key = json.dumps(refs, sort_keys=True)
        acc.outcome(key)
        if key != empty:
            acc.nontrivial += 1
        if r:
            todo = [f for f in r if acc.want_violation(f[0])]
            for f in r:
                if f not in todo:
                    acc.count_violation(f[0])
            for v in violation_records(shape, todo):
                acc.violation(v["sub"], v["sig"], v["witness"], v["detail"])
        elif acc.evaluations % 400 == 1:
            acc.sample({"main_body": shape_str(shape), "reference_observations_run0": refs[0][:6]})


def _empty_obs():
    if "e" not in _EMPTY_OBS:
        ref_phases = {n: (b, nx) for n, b, nx in describe([])}
        _EMPTY_OBS["e"] = json.dumps(
            [prog.ref_run(ref_phases, "init", INPUTS[i], m, FUNCS) for i, m in RUNS], sort_keys=True)
    return _EMPTY_OBS["e"]


def replay(witness):
    shape = witness["shape"]
    r, _ = check_description(shape)
    if r == "excluded" or not r:
        return []
    return violation_records(shape, r)
