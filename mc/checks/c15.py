"""C15 -- generated source text is a pure function of the method description.

For every program of a corpus (C03 single atoms, selected pairs, and hand-picked programs that reach each
unordered-iteration site) the Python and the Fortran generator are run under every configuration of
the axes the property names -- permutations of each statement list, phase insertion order, the
builder's own frozenset container, PYTHONHASHSEED (one subprocess per seed), a preceding generator
invocation in the same process with (c1) the same and (c2) a freshly built user_type_map -- and the
texts are compared byte for byte; interpreter observations are compared across the same axes.
"""

import hashlib
import itertools
import json
import os
import re
import subprocess
import sys

from mc import kernel, prog
from mc.checks import c01, c03

ID = "C15"
LEVEL = "exploration"
TECHNIQUE = ("exhaustive configuration enumeration per corpus program: statement-list permutations, phase order, container "
             "type, hash seeds (subprocesses), preceding generator invocations; byte comparison of emitted Python/Fortran "
             "text (sha256) with line-level localisation")
RULE = ("corpus programs x configurations (all permutations of main's statement list up to 24, reversed other phases, "
        "reversed phase insertion order, frozenset container, seeds, histories c1/c2); evaluations = generator runs; "
        "non-trivial = programs with >= 2 statements in some phase; distinct_outcomes = distinct texts")
ASSUMPTIONS = ["hash seeds explored: the listed ones only (the induced set orders actually observed are reported)",
               "the method description includes the user_type_map the caller hands to the Fortran generator"]
LEVEL_TEXT = ("Every configuration of the named axes is enumerated for each corpus program and the emitted texts are compared "
              "byte for byte with the base configuration.")
LEVEL_NOTE = "Trusted: sha256 / line diff."

A = c01.A

EXTRA = {
    "other-state": [A("<state>z", "<state>z + <dt>"), A("<p>zz", "<state>z * 2"), A("<p>s", "<p>zz")],
    "fan-in": [A("u1", "<p>s + 1"), A("u2", "<p>s + 2"), A("u3", "<p>s + 3"), A("u4", "<p>s + 4"), A("u5", "<p>s * 5"),
               A("<p>s", "u1 + u2 + u3 + u4 + u5")],
    "three-temps": [A("a1", "<state>y * 2"), A("a2", "<state>y * 3"), A("a3", "<func>f(<t>, <state>y)"),
                    A("<state>y", "a1 + a2 + a3")],
    "two-self-deps": [A(["w", "<p>s"], "<func>g2(<state>y, <p>s)"), A(["w", "<p>s"], "<func>g2(w, <p>s)"),
                      A("<state>y", "w")],
    "self-dep-3": [A("<p>s", "<p>s + <p>q"), A("<p>q", "<p>q * <p>s + <p>n"), A("<p>n", "<p>n + <p>q - <p>s")],
    "swap-vectors": [A("a1", "<state>y * 2"), A("a2", "<p>w + a1"), A("<p>w", "a1"), A("<state>y", "a2 + <p>w")],
}

# programs for a second registry / user_type_map: a function with three user-type results and three yielded components
EXTRA2 = {
    "three-results": [A(["a1", "a2", "a3"], "<func>g3(<state>y, <p>s)"), A("<state>y", "a1 + a2 + a3")],
    "three-components": [["Y", "<state>y", "y", "<t>", "final"], ["Y", "<p>w", "y2", "<t>", "final"],
                         ["Y", "<state>y * 2", "y3", "<t> + <dt>", "mid"]],
}

PAIRS = [("euler", "yield y"), ("s=ifexp", "if-nested"), ("tmp-array", "r[i]+=j"), ("w,s=g2", "yield w"),
         ("pw=y", "y=pw/2+y"), ("fail-if", "euler"), ("switch aux", "s+=dt"), ("q=s;s=q*q", "if-or-and")]


def atoms():
    d = dict(c03.ATOMS)
    d.update(EXTRA)
    d.update(EXTRA2)
    return d


def corpus(tier):
    at = atoms()
    names = list(at)
    out = [(n,) for n in names]
    out += PAIRS
    # the same programs with statement ids whose sorted order is the reverse of the order written
    out += [("@rev-ids", "fan-in"), ("@rev-ids", "three-temps"), ("@rev-ids", "euler", "yield y"),
            ("@rev-ids", "self-dep-3"), ("@rev-ids", "swap-vectors")]
    if tier == "thorough":
        out += [(a, b) for a in c03.CORE for b in c03.CORE[:10]]
    return out


def phases_of(names):
    at = atoms()
    body = []
    for n in names:
        if n == "@rev-ids":
            continue
        body.extend(at[n])
    return [("init", c03.INIT, "main"), ("main", body, "aux"), ("aux", c03.AUX, "main")]


def utm():
    import dagrt.codegen.fortran as f
    return {"y": f.ArrayType((3,), f.BuiltinType("real*8")), "y2": f.ArrayType((3,), f.BuiltinType("real*8")),
            "y3": f.ArrayType((3,), f.BuiltinType("real*8"))}


_REG = []


def registry():
    if not _REG:
        import dagrt.codegen.fortran as f
        from dagrt.data import UserType
        from dagrt.function_registry import register_function
        freg = register_function(c03.registry(), "<func>g3", ("y", "s"), result_names=("a", "b", "c"),
                                 result_kinds=(UserType("y"), UserType("y"), UserType("y")))
        freg = freg.register_codegen("<func>g3", "fortran", f.CallCode("""
                ${a} = ${y} + ${s}
                ${b} = ${y} * 2
                ${c} = ${y} - ${s}
                """))
        _REG.append(freg)
    return _REG[0]


_UTM = []


def shared_utm():
    if not _UTM:
        _UTM.append(utm())
    return _UTM[0]


def build_variant(names, variant):
    """variant: ("base",) | ("perm", perm tuple) | ("phase-order",) | ("frozenset",) | ("rev-others",)"""
    from dagrt.language import CodeBuilder, DAGCode, ExecutionPhase
    phases = {}
    for name, body, nxt in phases_of(names):
        with CodeBuilder(name) as cb:
            prog.drive_builder(cb, body, name)
        stmts = list(cb.statements)
        if names and names[0] == "@rev-ids":
            ren = {st.id: "%s_z%02d" % (name, len(stmts) - 1 - k) for k, st in enumerate(stmts)}
            stmts = [st.copy(id=ren[st.id], depends_on=frozenset(ren[d] for d in st.depends_on)) for st in stmts]
        if variant[0] == "perm" and name == "main":
            stmts = [stmts[i] for i in variant[1]]
        elif variant[0] == "rev-others" and name != "main":
            stmts = list(reversed(stmts))
        if variant[0] == "frozenset":
            phases[name] = ExecutionPhase(name=name, next_phase=nxt, statements=frozenset(stmts))
        else:
            phases[name] = ExecutionPhase(name=name, next_phase=nxt, statements=stmts)
    if variant[0] == "phase-order":
        phases = dict(reversed(list(phases.items())))
    return DAGCode(phases, "init")


def gen_texts(dag, user_type_map=None):
    import dagrt.codegen.fortran as f
    from dagrt.codegen.python import CodeGenerator as PyGen
    py = PyGen("Stepper")(dag)
    ft = f.CodeGenerator("m", function_registry=registry(),
                         user_type_map=user_type_map if user_type_map is not None else shared_utm())(dag)
    return py, ft


def sha(s):
    return hashlib.sha256(s.encode()).hexdigest()[:16]


def first_diff(a, b):
    la, lb = a.split("\n"), b.split("\n")
    for i, (x, y) in enumerate(zip(la, lb)):
        if x != y:
            return "line %d: %r vs %r" % (i + 1, x.strip()[:110], y.strip()[:110])
    return "length %d vs %d lines" % (len(la), len(lb))


_IDX = []


def index_var_pattern():
    """regex of the identifiers the Fortran generator makes from ArrayType's default index variable names i<N> (the
    prefix is whatever the name manager puts in front of generator-made names)"""
    if not _IDX:
        from dagrt.codegen.fortran import FortranNameManager
        made = FortranNameManager().make_unique_fortran_name("i0")
        prefix = made[:-2] if made.endswith("i0") else "drtf_"
        _IDX.append(re.compile(re.escape(prefix) + r"i\d+(_\d+)?"))
    return _IDX[0]


def normalisation(a, b):
    """weakest normalisation from a fixed ladder under which the two texts become equal"""
    def renum(t):
        m = {}

        def sub(mo):
            m.setdefault(mo.group(0), "drtf_i#%d" % len(m))
            return m[mo.group(0)]
        return index_var_pattern().sub(sub, t)

    def sort_runs(t, pat):
        out, run = [], []
        for ln in t.split("\n"):
            if re.search(pat, ln):
                run.append(ln)
            else:
                out.extend(sorted(run))
                run = []
                out.append(ln)
        out.extend(sorted(run))
        return "\n".join(out)
    if renum(a) == renum(b):
        return "renumber drtf_i<N>"
    a2, b2 = renum(a), renum(b)
    if sort_runs(a2, r"call dagrt_deinit_") == sort_runs(b2, r"call dagrt_deinit_"):
        return "sort adjacent dagrt_deinit calls"
    return "none"


def canon_index_vars(t):
    """text with continuation lines joined, blanks collapsed and drtf_i<N> index variables renumbered"""
    t = re.sub(r"&\s*\n\s*", " ", t)
    t = re.sub(r"[ \t]+", " ", t)
    m = {}

    def sub(mo):
        m.setdefault(mo.group(0), "drtf_i#%d" % len(m))
        return m[mo.group(0)]
    return index_var_pattern().sub(sub, t)


def perms_for(n, tier):
    if n <= 1:
        return []
    allp = list(itertools.permutations(range(n)))[1:]
    cap = 23 if tier == "quick" else 119
    if len(allp) <= cap:
        return allp
    ident = tuple(range(n))
    picks = [tuple(reversed(ident))] + [ident[r:] + ident[:r] for r in range(1, n)]
    # plus swaps of adjacent pairs
    for i in range(n - 1):
        p = list(ident)
        p[i], p[i + 1] = p[i + 1], p[i]
        picks.append(tuple(p))
    return list(dict.fromkeys(picks))


def interp_obs(dag):
    import numpy as np
    funcs = dict(c03.FUNCS)
    funcs["<func>g3"] = lambda y, s: (np.asarray(y) + s, np.asarray(y) * 2, np.asarray(y) - s)
    it = prog.make_interp(dag, funcs)
    return json.dumps(prog.observe_stepper(it, prog.interp_store,
                                           {"t": 0.0, "dt": 1.0, "state": {"y": np.array(c03.Y0)}},
                                           ("run", {"max_steps": 4})), default=repr)


def check_program(names, tier, acc=None):
    """in-process axes; returns list of (sub, sigwitness, detail)"""
    fails = []
    try:
        base_dag = build_variant(names, ("base",))
        py0, ft0 = gen_texts(base_dag)
        obs0 = interp_obs(base_dag)
    except Exception as ex:
        return [("generate-raises(%s)" % type(ex).__name__, "base", "%s: %s" % (type(ex).__name__, str(ex)[:300]))], None
    if acc is not None:
        acc.evaluations += 1
    nmain = len(base_dag.phases["main"].statements)
    # the builder's frozenset container iterates in address order, which no harness owns; every order it can
    # produce is among the permutations
    variants = [("perm", p) for p in perms_for(nmain, tier)] + [("phase-order",), ("rev-others",)]
    for v in variants:
        try:
            dag = build_variant(names, v)
            py, ft = gen_texts(dag)
            obs = interp_obs(dag)
        except Exception as ex:
            fails.append(("generate-raises(%s)" % type(ex).__name__, v[0], "%s under %s" % (ex, v)))
            continue
        if acc is not None:
            acc.evaluations += 1
        axis = {"perm": "statement-order", "phase-order": "phase-order", "frozenset": "container",
                "rev-others": "statement-order"}[v[0]]
        if py != py0 and not any(f[0] == "python-text(%s)" % axis for f in fails):
            fails.append(("python-text(%s)" % axis, "first-diff", "variant %s: %s" % (v, first_diff(py0, py))))
        if ft != ft0 and not any(f[0].startswith("fortran-text(%s" % axis) for f in fails):
            fails.append(("fortran-text(%s,%s)" % (axis, normalisation(ft0, ft)), "", "variant %s: %s" % (
                v, first_diff(ft0, ft))))
        if obs != obs0 and not any(f[0] == "interp-observation(%s)" % axis for f in fails):
            fails.append(("interp-observation(%s)" % axis, "", "variant %s: interpreter observations differ" % (v,)))
    # histories: another program generated first, fresh generator objects
    for other in (("euler", "yield y"), ("tmp-array",), ("other-state", "three-temps")):
        if tuple(names) == other:
            continue
        for mode in ("c1", "c2"):
            try:
                odag = build_variant(other, ("base",))
                gen_texts(odag, shared_utm() if mode == "c1" else utm())
                py, ft = gen_texts(build_variant(names, ("base",)), shared_utm() if mode == "c1" else utm())
            except Exception as ex:
                fails.append(("generate-raises(%s)" % type(ex).__name__, "history", str(ex)[:200]))
                continue
            if acc is not None:
                acc.evaluations += 2
            if py != py0 and not any(f[0] == "python-text(history-%s)" % mode for f in fails):
                fails.append(("python-text(history-%s)" % mode, "", "after generating %s first: %s" % (
                    other, first_diff(py0, py))))
            if ft != ft0 and not any(f[0].startswith("fortran-text(history-%s" % mode) for f in fails):
                if mode == "c2" and canon_index_vars(ft) == canon_index_vars(ft0):
                    # only the numbering of the ArrayType index variables (and the line wrapping it induces) differs
                    fails.append(("fortran-text(history-c2,index-var-numbering)", "GLOBAL",
                                  "after generating %s first with a freshly built user_type_map: %s" % (
                                      other, first_diff(ft0, ft))))
                else:
                    fails.append(("fortran-text(history-%s,%s)" % (mode, normalisation(ft0, ft)), "",
                                  "after generating %s first: %s" % (other, first_diff(ft0, ft))))
    return fails, (sha(py0), sha(ft0), sha(obs0), py0, ft0)


def check_program_subprocess(names, tier):
    """check_program in a fresh interpreter process (PYTHONHASHSEED=0): what a generator emitted earlier in the
    process is part of the quantifier, so detection and replay must start from the same (empty) history"""
    code = ("import sys, json; sys.path.insert(0, %r); sys.path.insert(0, %r); "
            "from mc.checks import c15; from mc import kernel; acc = kernel.Acc(); "
            "fails, info = c15.check_program(%r, %r, acc); "
            "print('@@' + json.dumps([fails, list(info[:3]) if info else None, acc.evaluations]))" % (
                kernel.REPO, kernel.VERIF, list(names), tier))
    p = subprocess.run([sys.executable, "-c", code], env=dict(os.environ, PYTHONHASHSEED="0"),
                       capture_output=True, text=True, timeout=3000)
    if p.returncode != 0:
        raise RuntimeError("subprocess failed: %s" % p.stderr[-800:])
    line = [ln for ln in p.stdout.splitlines() if ln.startswith("@@")][-1]
    fails, info, n = json.loads(line[2:])
    return [tuple(f) for f in fails], info, n


def digests(tier):
    """{program: [python sha, fortran sha, interpreter sha]} in this process (used across hash seeds)"""
    out = {}
    for names in corpus(tier):
        try:
            dag = build_variant(names, ("base",))
            py, ft = gen_texts(dag)
            out["|".join(names)] = [sha(py), sha(ft), sha(interp_obs(dag))]
        except Exception as ex:
            out["|".join(names)] = ["exc:" + type(ex).__name__] * 3
    return out


def texts_for(names):
    dag = build_variant(names, ("base",))
    return gen_texts(dag)


SEEDS_QUICK = [1, 2, 3, 4, 5, 6]
SEEDS_THOROUGH = list(range(1, 25))


def run_seed(seed, tier):
    code = ("import sys, json; sys.path.insert(0, %r); sys.path.insert(0, %r); "
            "from mc.checks import c15; print('@@' + json.dumps(c15.digests(%r)))" % (kernel.REPO, kernel.VERIF, tier))
    p = subprocess.run([sys.executable, "-c", code], env=dict(os.environ, PYTHONHASHSEED=str(seed)),
                       capture_output=True, text=True, timeout=3000)
    if p.returncode != 0:
        raise RuntimeError("seed subprocess failed: %s" % p.stderr[-800:])
    line = [ln for ln in p.stdout.splitlines() if ln.startswith("@@")][-1]
    return json.loads(line[2:])


def seed_text(seed, names):
    code = ("import sys, json; sys.path.insert(0, %r); sys.path.insert(0, %r); "
            "from mc.checks import c15; py, ft = c15.texts_for(%r); print('@@' + json.dumps([py, ft]))" % (
                kernel.REPO, kernel.VERIF, list(names)))
    p = subprocess.run([sys.executable, "-c", code], env=dict(os.environ, PYTHONHASHSEED=str(seed)),
                       capture_output=True, text=True, timeout=600)
    line = [ln for ln in p.stdout.splitlines() if ln.startswith("@@")][-1]
    return json.loads(line[2:])


def bounds(tier):
    return {"corpus_programs": len(corpus(tier)), "hash_seeds": [0] + (SEEDS_QUICK if tier == "quick" else SEEDS_THOROUGH),
            "statement_permutations": "all (up to %d), else reversal + rotations + adjacent swaps" % (
                24 if tier == "quick" else 120),
            "histories": ["c1: same user_type_map objects", "c2: freshly built user_type_map"],
            "other_axes": ["phase insertion order", "other phases reversed"]}


def shards(tier, seed):
    out = []
    n = len(corpus(tier))
    m = min(32, n)
    for r in range(m):
        out.append({"part": "inproc", "tier": tier, "mod": m, "rem": r})
    for s in (SEEDS_QUICK if tier == "quick" else SEEDS_THOROUGH):
        out.append({"part": "seed", "tier": tier, "seed": s})
    return out


def run_shard(desc, acc):
    tier = desc["tier"]
    if desc["part"] == "seed":
        # both sides come from fresh processes with identical histories: only the seed differs
        mine = run_seed(0, tier)
        other = run_seed(desc["seed"], tier)
        acc.evaluations += 2 * len(mine)
        reported = set()
        for k in mine:
            for idx, what in enumerate(("python-text", "fortran-text", "interp-observation")):
                if mine[k][idx] != other[k][idx]:
                    names = tuple(k.split("|"))
                    norm = ""
                    detail = "program %s: %s differs between PYTHONHASHSEED=0 and %d" % (k, what, desc["seed"])
                    if idx < 2:
                        try:
                            t0 = seed_text(0, names)[idx]
                            t1 = seed_text(desc["seed"], names)[idx]
                            detail += "; " + first_diff(t0, t1)
                            if idx == 1:
                                detail += " [equal after: %s]" % normalisation(t0, t1)
                        except Exception as ex:
                            detail += " (could not localise: %s)" % ex
                    sub = "%s(hash-seed%s)" % (what, norm)
                    sig = "C15/%s:%s" % (sub, k)
                    if sig not in reported:
                        reported.add(sig)
                        acc.violation(sub, sig, {"program": list(names), "seed": desc["seed"], "axis": "hash-seed"}, detail)
        return
    for i, names in enumerate(corpus(tier)):
        if i % desc["mod"] != desc["rem"]:
            continue
        fails, info, n = check_program_subprocess(names, tier)
        acc.evaluations += n
        if info:
            acc.outcome(info[0] + info[1])
            if len(names) >= 1:
                acc.nontrivial += 1
        for sub, scope, detail in fails:
            sig = "C15/%s:%s" % (sub, "any program with a user-type loop" if scope == "GLOBAL" else "|".join(names))
            acc.violation(sub, sig, {"program": list(names), "axis": "in-process"},
                          "program %s: %s" % ("|".join(names), detail))
        if info and (not acc.samples or (not fails and i % 10 == 0)):
            acc.sample({"program": list(names), "python_sha": info[0], "fortran_sha": info[1]})


def replay(witness):
    names = tuple(witness["program"])
    if witness.get("axis") == "hash-seed":
        acc = kernel.Acc()
        # recompute just this program under that seed
        out = []
        t0 = seed_text(0, names)
        t1 = seed_text(witness["seed"], names)
        for idx, what in enumerate(("python-text", "fortran-text")):
            if t0[idx] != t1[idx]:
                sub = "%s(hash-seed)" % what
                out.append({"sub": sub, "sig": "C15/%s:%s" % (sub, "|".join(names)), "witness": witness,
                            "detail": first_diff(t0[idx], t1[idx])})
        return out
    fails, _, _ = check_program_subprocess(names, "quick")
    return [{"sub": sub, "sig": "C15/%s:%s" % (sub, "any program with a user-type loop" if scope == "GLOBAL"
                                               else "|".join(names)), "witness": witness, "detail": detail}
            for sub, scope, detail in fails]
