"""C17 -- a reported expression match is a genuine match.

All (template, expression) pairs up to an operator-count bound over sums, products, unary minus,
calls with positional and keyword arguments and function symbols, crossed with free-variable
choices and pre-matches, are given to the real match(); every returned substitution is checked:
binds only free names, extends the pre-match, and template.sigma has the same commutative-ring
normal form as the expression (a mismatch is reported only with a concrete valuation / hashed
function interpretation on which the two differ).
"""

import itertools
import json
import warnings

import pymbolic.primitives as P

from mc import kernel, nf

ID = "C17"
LEVEL = "exploration"
TECHNIQUE = ("bounded exhaustive enumeration of (template, expression, free set, pre-match) tuples; soundness oracle by "
             "polynomial normal form with concrete witness valuations")
RULE = ("templates/expressions are all trees with <= n operators over the C17 operator set and atom pools; tuples are "
        "generated once each; non-trivial = tuples on which match() returned a substitution with at least one binding; "
        "distinct_outcomes = distinct (returned substitution as text | exception type)")
ASSUMPTIONS = ["pymbolic.substitute is trusted to apply the returned substitution",
               "completeness (a match exists but none is found) is not part of the property and only counted"]
LEVEL_TEXT = ("Every tuple in the bounded space is run through the real match(); soundness of each returned substitution is "
              "decided exactly by a ring normal form in which calls are uninterpreted, and confirmed by a concrete valuation "
              "before anything is reported.")
LEVEL_NOTE = "Trusted: nf.py (normal form + evaluator), pymbolic's substitute."

V = P.Variable
T_ATOMS = ["a", "b", "c", 1, 2]
E_ATOMS = ["x", "y", "c", 0, 1]


def mk(a):
    return V(a) if isinstance(a, str) else a


def ops(children_small, children_big, fsyms):
    """binary/unary constructors applied to (big, small) operand choices"""
    for x in children_big:
        yield P.Product((-1, x))
        for f in fsyms:
            yield P.Call(V(f), (x,))
    for x, y in itertools.chain(itertools.product(children_big, children_small),
                                itertools.product(children_small, children_big)):
        yield P.Sum((x, y))
        yield P.Product((x, y))
        yield P.Call(V("f"), (x, y))
        yield P.CallWithKwargs(V("f"), (x,), {"k": y})
        yield P.CallWithKwargs(V("f"), (), {"k": x, "m": y})
        yield P.CallWithKwargs(V("f"), (), {"m": y, "k": x})     # same call, other insertion order


def exprs(atoms, nops, fsyms):
    """all expressions with exactly nops operators (dedup by structural equality)"""
    lv = {0: [mk(a) for a in atoms]}
    for n in range(1, nops + 1):
        seen = set()
        out = []
        # unary/binary with one child of size n-1 and (for binary) the other an atom;
        # for n == 2 additionally nothing else (both children sized 1 would be 3 operators)
        for e in ops(lv[0], lv[n - 1], fsyms):
            if repr(e) not in seen:         # repr keeps the keyword insertion order apart
                seen.add(repr(e))
                out.append(e)
        lv[n] = out
    return lv


_CACHE = {}


def spaces():
    if "t" not in _CACHE:
        _CACHE["t"] = exprs(T_ATOMS, 2, ["f", "g", "F"])
        _CACHE["e"] = exprs(E_ATOMS, 2, ["f", "g", "h"])
    return _CACHE["t"], _CACHE["e"]


def free_choices(t, small=False):
    vs, fs = nf.variables(t)
    names = set(vs) | set(fs)
    out = [None]
    if small:
        out.append([])        # explicitly no free variable: nothing may be bound
    for cand in (["a"], ["b"], ["a", "b"], ["a", "b", "F"], ["a", "b", "c"], ["F"]):
        if set(cand) <= names:
            out.append(cand)
    return out


PRE = [None, {"a": "x"}, {"a": "1"}, {"b": "x + y"}, {"c": "x"}]


def check(t, e, free, pre):
    """returns (violation or None, outcome string, matched?)"""
    from dagrt.expression import match
    from pymbolic import substitute
    vs, fs = nf.variables(t)
    allowed = set(free) if free is not None else set(vs) | set(fs)
    try:
        with warnings.catch_warnings():
            warnings.simplefilter("ignore")
            with kernel.time_limit(120):
                sigma = match(t, e, free_variable_names=list(free) if free is not None else None,
                              pre_match=dict(pre) if pre is not None else None)
    except kernel.Budget:
        return ("budget", "match did not return within 120 s"), "hang", False
    except ValueError:
        return None, "ValueError", False
    except Exception as ex:
        return ("wrong-exception(%s)" % type(ex).__name__, "%s: %s" % (type(ex).__name__, ex)), \
            "exc:" + type(ex).__name__, False
    out = json.dumps({k: str(v) for k, v in sorted(sigma.items())})
    extra = set(sigma) - allowed
    if extra:
        return ("binds-non-free", "substitution binds %s which are not free (free: %s)" % (
            sorted(extra), sorted(allowed))), out, True
    if pre:
        from dagrt.expression import parse
        for k, v in pre.items():
            if k not in sigma or not nf.same(sigma[k], parse(v)):
                return ("contradicts-pre-match", "pre-match %s=%s but substitution has %s" % (
                    k, v, sigma.get(k))), out, True
    try:
        inst = substitute(t, {k: v for k, v in sigma.items()})
    except Exception as ex:
        return ("substitute-fails", "%s" % ex), out, True
    if not nf.same(inst, e):
        w = nf.witness(inst, e)
        if w is not None:
            return ("unsound", "template %s with %s gives %s which differs from %s at %s" % (
                t, out, inst, e, json.dumps(w, default=repr))), out, True
        return None, out + " (nf differs, no witness)", True
    return None, out, bool(sigma)


def tuples(tier):
    """yield (template, expression, free, pre)"""
    T, E = spaces()
    small_t = T[0] + T[1]
    small_e = E[0] + E[1]
    if tier == "quick":
        plans = [(small_t + T[2], small_e, False), (small_t, small_e, True)]
    else:
        # every 6th two-operator expression: the full product (2.8e8 calls) takes about two hours
        plans = [(small_t + T[2], small_e + E[2][::6], False), (small_t + T[2], small_e, True)]
    for ts, es, with_pre in plans:
        n_small = len(small_t)
        for ti, t in enumerate(ts):
            frees = free_choices(t, small=(ti < n_small))
            for e in es:
                for fr in frees:
                    if with_pre:
                        for pre in PRE[1:]:
                            yield t, e, fr, pre
                    else:
                        yield t, e, fr, None


def bounds(tier):
    T, E = spaces()
    return {"templates<=1op": len(T[0]) + len(T[1]), "templates_2op": len(T[2]),
            "expressions<=1op": len(E[0]) + len(E[1]), "expressions_2op": len(E[2]),
            "pairs": "T<=2 x E<=1" if tier == "quick" else "T<=2 x (E<=1 + every 6th expression with 2 operators)",
            "free_sets": "default + up to 6 explicit", "pre_matches": len(PRE) - 1}


def shards(tier, seed):
    m = 128 if tier == "quick" else 512
    return [{"tier": tier, "mod": m, "rem": r} for r in range(m)]


def shrink_record(t, e, fr, pre, sub):
    """minimise by replacing subtrees with their children while the same sub-oracle fails"""
    def sub_exprs(x):
        if isinstance(x, (P.Sum, P.Product)):
            return list(x.children)
        if isinstance(x, (P.Call, P.CallWithKwargs)):
            r = list(x.parameters)
            if isinstance(x, P.CallWithKwargs):
                r += list(x.kw_parameters.values())
            return r
        return []

    def fails(t2, e2, fr2, pre2):
        vs, fs = nf.variables(t2)
        if fr2 is not None and not set(fr2) <= set(vs) | set(fs):
            return False
        if pre2 and fr2 is not None and not set(pre2) <= set(fr2) and sub != "wrong-exception(ValueError)":
            pass
        r, _, _ = check(t2, e2, fr2, pre2)
        return r is not None and r[0] == sub
    changed = True
    while changed:
        changed = False
        if pre is not None and fails(t, e, fr, None):
            pre = None
            changed = True
        for c in sub_exprs(e):
            if not isinstance(c, int) and fails(t, c, fr, pre):
                e = c
                changed = True
                break
        for c in sub_exprs(t):
            if not isinstance(c, int) and fails(c, e, fr, pre):
                t = c
                changed = True
                break
    return t, e, fr, pre


def sig(sub, t, e, fr, pre):
    return "C17/%s:template=%s expr=%s free=%s pre=%s" % (sub, t, e, fr if fr is None else sorted(fr), pre)


def run_shard(desc, acc):
    for i, (t, e, fr, pre) in enumerate(tuples(desc["tier"])):
        if i % desc["mod"] != desc["rem"]:
            continue
        if (i & 0xfff) == 0 and acc.out_of_time():
            acc.cap("time cap in shard %r" % desc)
            return
        acc.evaluations += 1
        r, out, matched = check(t, e, fr, pre)
        acc.outcome(out)
        if matched:
            acc.nontrivial += 1
        if r is not None:
            sub = r[0]
            if acc.want_violation(sub):
                t2, e2, fr2, pre2 = shrink_record(t, e, fr, pre, sub)
                r2, _, _ = check(t2, e2, fr2, pre2)
                acc.violation(sub, sig(sub, t2, e2, fr2, pre2),
                              {"template": str(t2), "expression": str(e2), "free": fr2, "pre": pre2},
                              (r2 or r)[1])
            else:
                acc.count_violation(sub)
        elif matched and i % 5000 == 0:
            acc.sample({"template": str(t), "expression": str(e), "free": fr, "pre_match": pre, "result": out})


def replay(witness):
    from dagrt.expression import parse
    t, e = parse(witness["template"]), parse(witness["expression"])
    r, _, _ = check(t, e, witness["free"], witness["pre"])
    if r is None:
        return []
    return [{"sub": r[0], "sig": sig(r[0], t, e, witness["free"], witness["pre"]), "witness": witness,
             "detail": r[1]}]
