"""C16 -- fusing two methods runs both on shared persistent state without interference.

All pairs (A, B) of two-phase builder methods whose `main` bodies have <= k items from the C16
alphabet (built so that the two methods clash on statement ids, temporaries, if_ flags and loop
counters and share reads of <t>, <dt>, <state>y) are fused by the real fuse_two_dags under every
renaming predicate in {absent, temporaries-only, nothing, everything}.  Checked structurally
(ids, A unchanged, B an image under an id bijection and an injective variable renaming applied
to every expression slot incl. guards and loop headers, persistent names untouched or as the
predicate says, no shared temporaries) and semantically (interpreter runs of A, B and the fusion).
"""

import itertools
import json

import pymbolic.primitives as P

from mc import kernel, prog
from mc.checks import c01
from mc.refexpr import canon

ID = "C16"
LEVEL = "exploration"
TECHNIQUE = ("bounded exhaustive enumeration of method pairs x renaming predicates; structural image check of every "
             "expression slot + differential interpreter runs (fused vs stand-alone)")
RULE = ("method bodies = all sequences of <= k atoms (each atom instantiated for method letter a or b); all ordered pairs "
        "(A, B) x 4 predicates; non-trivial = pairs whose methods clash on at least one temporary, flag or loop counter; "
        "distinct_outcomes = distinct renamings observed")
ASSUMPTIONS = ["semantic comparison only for pairs that write disjoint persistent variables and do not read each other's "
               "writes (as the property states)", "3 steps, inputs y in {0, 2}"]
LEVEL_TEXT = ("Every pair in the bounded space is fused by the real code under each predicate; the fused phase is compared "
              "slot by slot with A and with B, and the interpreter results of the fusion are compared with the stand-alone "
              "runs step by step.")
LEVEL_NOTE = "Trusted: the slot walker (40 lines) and the interpreter (checked against program order in C01)."

A = c01.A


def atoms(M):
    """alphabet instantiated for method letter M ('a' or 'b'); O is the other method"""
    p = "<p>%s" % M
    return {
        "p+=dt": [A(p, p + " + <dt>")],
        "u=y+1;p=u": [A("u", "<state>y + 1"), A(p, "u + " + p)],
        "if": [["IF", ["s", "<state>y > 1"], [A(p, p + " + 1")], [A(p, p + " - 1")]]],
        "if-nested": [["IF", ["s", "<state>y > 1"], [["IF", ["s", p + " > 0"], [A(p, p + " * 2")], None]], None]],
        "loop": [A(p + "r[i]", "i + <t> + " + p, [("i", "0", "3")])],
        # a statement repeated n times: the counter occurs in the loop header only
        "repeat": [A(p, p + " + 2", [("i", "0", "2")])],
        # the same with a counter name of several characters, which the other method may use as a per-step variable
        "repeat-idx": [A(p, p + " + 3", [("idx", "0", "2")])],
        "idx-temp": [A("idx", "<state>y + 1"), A(p, "idx + " + p)],
        "tmp-loop": [A("w", "<builtin>array(3)"), A("w[i]", "i * 2", [("i", "0", "3")]), A(p, p + " + w[2]")],
        "loop-n": [A("n", "2"), A(p + "r[i]", "7", [("i", "0", "n")])],
        "yield": [["Y", p, M, "<t>", "tid"]],
        "call": [A("u", "<func>f(<state>y)"), A(p, "u")],
        "callkw": [A("u", "<state>y + 2"), A("v", "<func>k(<t>, z=u)"), A(p, "v")],
        "fresh": [A("temp", p + " + 3"), A(p, "temp")],
        "swap": [A("u", p), A("v", "u * 2"), A(p, "v - u + 1")],
        # per-step variables whose names are substrings of the reserved names <t>, <dt>
        "t-named": [A("t", "<state>y + 1"), A("dt", "t * 2"), A("d", "dt + t"), A(p, "d + " + p)],
        # non-disjoint / shared writes
        "shared": [A("<p>s", "<p>s + 1")],
        "t+=dt": [A("<t>", "<t> + <dt>")],
        "fail-late": [["IF", ["s", p + " > 50"], [["FAIL"]], None]],
    }


ATOM_NAMES = list(atoms("a"))
NONDISJOINT = {"shared", "t+=dt"}
CUTS = {"fail-late"}


def method(M, names, extra_phase=False):
    at = atoms(M)
    body = []
    for n in names:
        body.extend(at[n])
    init = [A("<p>%s" % M, "<state>y"), A("<p>%sr" % M, "<builtin>array(3)"),
            A("<p>%sr[i]" % M, "i", [("i", "0", "3")]), A("<p>s", "0")]
    phases = [("init", init, "main"), ("main", body, "main")]
    if extra_phase:
        phases.append(("rescue_" + M, [A("<p>%s" % M, "0"), A("u", "<p>%s + 1" % M)], "main"))
    return prog.build_dag(phases, "init")


PRESENTATIONS = ["as-built", "rev-ids", "rev-order", "rev-ids+rev-order"]


def present(dag, how):
    """the same method written down differently: statement ids permuted (the i-th statement gets the id of the
    (n-1-i)-th, dependencies follow) and/or the statement list reversed.  Neither changes the method's meaning."""
    if how == "as-built":
        return dag
    from dagrt.language import DAGCode, ExecutionPhase
    phases = {}
    for name, ph in dag.phases.items():
        stmts = list(ph.statements)
        if "rev-ids" in how:
            ids = [st.id for st in stmts]
            ren = {i: ids[len(ids) - 1 - k] for k, i in enumerate(ids)}
            stmts = [st.copy(id=ren[st.id], depends_on=frozenset(ren[d] for d in st.depends_on)) for st in stmts]
        if "rev-order" in how:
            stmts = list(reversed(stmts))
        phases[name] = ExecutionPhase(name=name, next_phase=ph.next_phase, statements=stmts)
    return DAGCode(phases, dag.initial_phase)


PREDICATES = {
    "absent": None,
    "temporaries": lambda name: not (name in ("<t>", "<dt>") or name.startswith(("<state>", "<p>"))),
    "nothing": lambda name: False,
    "everything": lambda name: True,
}


def slots(stmt):
    """[(slot name, expression or name-string)] of one statement, every expression slot incl. guard and loop header"""
    from dagrt.language import Assign, AssignFunctionCall, FailStep, Nop, Raise, SwitchPhase, YieldState
    out = []
    if isinstance(stmt, Nop):
        return out
    out.append(("condition", stmt.condition))
    if isinstance(stmt, Assign):
        out.append(("lhs", stmt.lhs))
        out.append(("rhs", stmt.rhs))
        for k, (ident, lo, hi) in enumerate(stmt.loops):
            out.append(("loop%d.ident" % k, P.Variable(ident)))
            out.append(("loop%d.start" % k, lo))
            out.append(("loop%d.stop" % k, hi))
    elif isinstance(stmt, AssignFunctionCall):
        for k, a in enumerate(stmt.assignees):
            out.append(("assignee%d" % k, P.Variable(a)))
        out.append(("function", stmt.function_id))
        for k, a in enumerate(stmt.parameters):
            out.append(("param%d" % k, a))
        for k, a in sorted(stmt.kw_parameters.items()):
            out.append(("kw:%s" % k, a))
    elif isinstance(stmt, YieldState):
        out.append(("expression", stmt.expression))
        out.append(("time", stmt.time))
        out.append(("ids", "%s/%s" % (stmt.time_id, stmt.component_id)))
    elif isinstance(stmt, SwitchPhase):
        out.append(("next", stmt.next_phase))
    elif isinstance(stmt, Raise):
        out.append(("error", stmt.error_condition.__name__))
    return out


def unify_names(e1, e2, rho, path):
    """walk two expressions in parallel; record variable renamings in rho; returns mismatch description or None"""
    if isinstance(e1, P.Variable) and isinstance(e2, P.Variable):
        old = rho.get(e1.name)
        if old is not None and old != e2.name:
            return "%s: %s is renamed to %s here but to %s elsewhere" % (path, e1.name, e2.name, old)
        rho[e1.name] = e2.name
        return None
    if type(e1) is not type(e2):
        return "%s: %r became %r" % (path, e1, e2)
    if isinstance(e1, (P.Sum, P.Product, P.LogicalAnd, P.LogicalOr, P.Min, P.Max)):
        if len(e1.children) != len(e2.children):
            return "%s: arity changed" % path
        for a, b in zip(e1.children, e2.children):
            r = unify_names(a, b, rho, path)
            if r:
                return r
        return None
    if isinstance(e1, (P.Call, P.CallWithKwargs)):
        r = unify_names_fn(e1.function, e2.function, path)
        if r:
            return r
        if len(e1.parameters) != len(e2.parameters):
            return "%s: arity changed" % path
        for a, b in zip(e1.parameters, e2.parameters):
            r = unify_names(a, b, rho, path)
            if r:
                return r
        if isinstance(e1, P.CallWithKwargs):
            if set(e1.kw_parameters) != set(e2.kw_parameters):
                return "%s: keywords changed" % path
            for k in e1.kw_parameters:
                r = unify_names(e1.kw_parameters[k], e2.kw_parameters[k], rho, path)
                if r:
                    return r
        return None
    if isinstance(e1, (P.Quotient, P.FloorDiv, P.Remainder)):
        return unify_names(e1.numerator, e2.numerator, rho, path) or \
            unify_names(e1.denominator, e2.denominator, rho, path)
    if isinstance(e1, P.Power):
        return unify_names(e1.base, e2.base, rho, path) or unify_names(e1.exponent, e2.exponent, rho, path)
    if isinstance(e1, P.Comparison):
        if e1.operator != e2.operator:
            return "%s: operator changed" % path
        return unify_names(e1.left, e2.left, rho, path) or unify_names(e1.right, e2.right, rho, path)
    if isinstance(e1, P.LogicalNot):
        return unify_names(e1.child, e2.child, rho, path)
    if isinstance(e1, P.If):
        return unify_names(e1.condition, e2.condition, rho, path) or unify_names(e1.then, e2.then, rho, path) \
            or unify_names(e1.else_, e2.else_, rho, path)
    if isinstance(e1, P.Subscript):
        i1 = e1.index if isinstance(e1.index, tuple) else (e1.index,)
        i2 = e2.index if isinstance(e2.index, tuple) else (e2.index,)
        r = unify_names(e1.aggregate, e2.aggregate, rho, path)
        if r:
            return r
        if len(i1) != len(i2):
            return "%s: index arity changed" % path
        for a, b in zip(i1, i2):
            r = unify_names(a, b, rho, path)
            if r:
                return r
        return None
    if e1 != e2:
        return "%s: %r became %r" % (path, e1, e2)
    return None


def unify_names_fn(f1, f2, path):
    if isinstance(f1, P.Variable) and isinstance(f2, P.Variable) and f1.name == f2.name:
        return None
    return "%s: function symbol %r became %r" % (path, f1, f2)


def is_persistent(name):
    return name in ("<t>", "<dt>") or name.startswith(("<state>", "<p>"))


def names_of(stmts):
    out = set()
    for st in stmts:
        for _, e in slots(st):
            if isinstance(e, str):
                continue
            rho = {}
            unify_names(e, e, rho, "")
            out |= set(rho)
    return out


def _layout(st):
    return (type(st).__name__, tuple(k for k, _ in slots(st)))


def alternative_pairings(sb, images, cap=20000):
    """orderings of `images` under which the i-th image has the type and slot layout of the i-th statement of B and
    all expression slots unify under one consistent renaming (backtracking search, `cap` nodes)"""
    n = len(sb)
    lay_s = [_layout(st) for st in sb]
    lay_i = [_layout(im) for im in images]
    slots_s = [slots(st) for st in sb]
    slots_i = [slots(im) for im in images]
    nodes = [0]

    def fits(a, b, rho):
        for (k, e1), (_, e2) in zip(slots_s[a], slots_i[b]):
            if isinstance(e1, str) or isinstance(e2, str):
                if e1 != e2:
                    return False
                continue
            if unify_names(e1, e2, rho, ""):
                return False
        return True

    def rec(a, used, rho):
        if a == n:
            yield [images[b] for b in used]
            return
        for b in range(n):
            if b in used or lay_i[b] != lay_s[a]:
                continue
            nodes[0] += 1
            if nodes[0] > cap:
                return
            r2 = dict(rho)
            if fits(a, b, r2):
                yield from rec(a + 1, used + [b], r2)
    for out in rec(0, [], {}):
        if all(x is y for x, y in zip(out, images)):
            continue
        yield out


def check_images(ph, sb, b_images):
    """B's statements against their images (paired by position): returns ((sub, detail) or None, renaming)"""
    idmap = {}
    rho = {}
    for st, im in zip(sb, b_images):
        idmap[st.id] = im.id
    for st, im in zip(sb, b_images):
        if type(st) is not type(im):
            return ("B-not-renaming-image(kind)", "phase %s: %s became %s" % (ph, st, im)), rho
        if {idmap[d] for d in st.depends_on} != set(im.depends_on):
            return ("B-not-renaming-image(depends_on)", "phase %s: dependencies of %s are %s, expected %s" % (
                ph, im.id, sorted(im.depends_on), sorted(idmap[d] for d in st.depends_on))), rho
        s1, s2 = slots(st), slots(im)
        if [k for k, _ in s1] != [k for k, _ in s2]:
            return ("B-not-renaming-image(slots)", "phase %s: %s became %s" % (ph, st, im)), rho
        for (k, e1), (_, e2) in zip(s1, s2):
            if isinstance(e1, str) or isinstance(e2, str):
                if e1 != e2:
                    return ("B-not-renaming-image(%s)" % k.split(".")[-1].rstrip("0123456789"),
                            "phase %s: %s of '%s' became %r" % (ph, k, st, e2)), rho
                continue
            r = unify_names(e1, e2, rho, "%s of '%s' -> '%s'" % (k, st, im))
            if r:
                slot = k.split(".")[-1].rstrip("0123456789")
                return ("B-not-renaming-image(%s)" % slot, "phase %s: %s" % (ph, r)), rho
    return None, rho


def check_structure(dagA, dagB, fused, pred_name):
    pred = PREDICATES[pred_name]
    for ph in dagA.phases:
        sa = list(dagA.phases[ph].statements)
        sb = list(dagB.phases[ph].statements)
        sf = list(fused.phases[ph].statements)
        if len(sf) != len(sa) + len(sb):
            return ("count/ids", "phase %s: %d + %d statements fused into %d" % (ph, len(sa), len(sb), len(sf)))
        ids = [s.id for s in sf]
        if len(set(ids)) != len(ids):
            return ("count/ids", "phase %s: duplicate statement ids %s" % (ph, sorted(ids)))
        by_id = {s.id: s for s in sf}
        # A's images: identical statements
        for s in sa:
            if s.id not in by_id or str(by_id[s.id]) != str(s) or by_id[s.id].depends_on != s.depends_on \
                    or slots(by_id[s.id]) != slots(s):
                return ("A-changed", "phase %s: statement %s of the first method was altered: %s -> %s" % (
                    ph, s.id, s, by_id.get(s.id)))
        a_ids = {s.id for s in sa}
        b_images = [s for s in sf if s.id not in a_ids]
        if len(b_images) != len(sb):
            return ("count/ids", "phase %s: cannot separate the second method's statements" % ph)
        # which image belongs to which statement of B: in the order B lists them if that works, otherwise any pairing
        # of statements with images of the same type and slot layout under which every check passes (the order of the
        # fused statement list is not part of the property)
        err = judge(ph, sa, sb, b_images, pred)
        if err is not None:
            for alt in alternative_pairings(sb, b_images):
                if judge(ph, sa, sb, alt, pred) is None:
                    err = None
                    break
        if err is not None:
            return err
    return None


def judge(ph, sa, sb, b_images, pred):
    """verdict for one pairing of B's statements with their images (by position)"""
    err, rho = check_images(ph, sb, b_images)
    if err is not None:
        return err
    # rho: injective, persistent names per predicate, new names new
    inv = {}
    for k, v in rho.items():
        if v in inv and inv[v] != k:
            return ("renaming-not-injective", "phase %s: %s and %s are both renamed to %s" % (ph, inv[v], k, v))
        inv[v] = k
    na, nb = names_of(sa), names_of(sb)
    for k, v in sorted(rho.items()):
        clash = k in na
        if pred is None:
            want_renamed = clash and not is_persistent(k)
        else:
            want_renamed = clash and bool(pred(k))
        if k != v and not want_renamed:
            cls = name_class(k)
            if pred is None or not clash:
                return ("persistent-renamed(%s)" % cls if is_persistent(k) else "needless-rename(%s)" % cls,
                        "phase %s: %s was renamed to %s although %s" % (
                            ph, k, v, "it does not clash" if not clash else "it is persistent state shared "
                            "by both methods"))
            return ("predicate-ignored(%s)" % cls, "phase %s: %s was renamed to %s although "
                    "should_disambiguate_name says no" % (ph, k, v))
        if k == v and want_renamed:
            cls = name_class(k)
            if pred is None:
                return ("temporaries-shared(%s)" % cls, "phase %s: both methods use the per-step variable %s and "
                        "it was not renamed" % (ph, k))
            return ("predicate-ignored(%s)" % cls, "phase %s: %s clashes and should_disambiguate_name says "
                    "yes, but it was not renamed" % (ph, k))
        if k != v and (v in na or v in nb):
            return ("renaming-captures", "phase %s: %s is renamed to %s, which is already in use" % (ph, k, v))
    return None


def name_class(n):
    if n in ("<t>", "<dt>"):
        return n
    for tag in ("<state>", "<p>", "<cond>"):
        if n.startswith(tag):
            return tag
    return "temporary"


def f_f(x):
    return 3 * x + 1


def f_k(t, z):
    return 10 * t + z


FUNCS = {"<func>f": f_f, "<func>k": f_k}


def run_persistent(dag, y, steps=3):
    it = prog.make_interp(dag, FUNCS)
    obs = prog.observe_stepper(it, prog.interp_store, {"t": 0, "dt": 1, "state": {"y": y}},
                               ("run", {"max_steps": steps}))
    return obs


def project(obs, letter):
    """persistent variables of one method + its yields, per step"""
    out = []
    for o in obs:
        if o[0] == "store":
            out.append({k: v for k, v in o[1].items() if k.startswith("<p>" + letter)})
        elif o[0] == "state" and o[3] == letter:
            out.append(["yield", o[1], o[2], o[4]])
        elif o[0] in ("raised", "crash"):
            out.append(o[:2])
    return out


def check_pair(na, nb, pred_name, semantic=True, how=("as-built", "as-built")):
    from dagrt.transform import fuse_two_dags
    dagA, dagB = present(method("a", na), how[0]), present(method("b", nb), how[1])
    try:
        with kernel.time_limit(120):
            if PREDICATES[pred_name] is None:
                fused = fuse_two_dags(dagA, dagB)
            else:
                fused = fuse_two_dags(dagA, dagB, should_disambiguate_name=PREDICATES[pred_name])
    except kernel.Budget:
        return ("budget", "fuse_two_dags did not return"), None
    except Exception as ex:
        return ("exception(%s)" % type(ex).__name__, "fuse_two_dags raised %s: %s" % (type(ex).__name__, ex)), None
    r = check_structure(dagA, dagB, fused, pred_name)
    if r:
        return r, None
    rho_key = pred_name
    disjoint = not ((set(na) & NONDISJOINT) and (set(nb) & NONDISJOINT)) and not ((set(na) | set(nb)) & CUTS)
    if semantic and disjoint and pred_name in ("absent", "temporaries"):
        for y in (0, 2):
            try:
                of = run_persistent(fused, y)
                oa = run_persistent(dagA, y)
                ob = run_persistent(dagB, y)
            except Exception as ex:
                return ("semantic(exception)", "%s: %s" % (type(ex).__name__, ex)), None
            # <t> advances in the fusion if either method advances it: compare only when neither or the
            # projection's own method owns the clock
            for letter, alone, names in (("a", oa, na), ("b", ob, nb)):
                other = nb if letter == "a" else na
                if "t+=dt" in other or "shared" in other:
                    continue       # the other method changes state this one reads: not an independent pair
                if project(of, letter) != project(alone, letter):
                    return ("semantic(%s)" % letter,
                            "y=%s: method %s alone gives %s but inside the fusion %s" % (
                                y, letter, json.dumps(project(alone, letter))[:400],
                                json.dumps(project(of, letter))[:400])), None
    return None, rho_key


def check_phase_sets():
    """methods with differing phase sets: the fusion contains the union, extra phases intact"""
    from dagrt.transform import fuse_two_dags
    out = []
    for ea, eb in ((True, False), (False, True), (True, True)):
        a, b = method("a", ["p+=dt"], ea), method("b", ["u=y+1;p=u"], eb)
        try:
            f = fuse_two_dags(a, b)
        except Exception as ex:
            out.append(("exception(%s)" % type(ex).__name__, "C16/exception:phase-sets %s/%s" % (ea, eb),
                        {"phase_sets": [ea, eb]}, "fusing methods with different phase sets raised %s" % ex))
            continue
        want = set(a.phases) | set(b.phases)
        if set(f.phases) != want:
            out.append(("phase-lost", "C16/phase-lost:extra phase in %s" % ("first" if ea and not eb else
                                                                            "second" if eb and not ea else "both"),
                        {"phase_sets": [ea, eb]},
                        "fused method has phases %s, expected %s" % (sorted(f.phases), sorted(want))))
            continue
        for src in (a, b):
            for name, ph in src.phases.items():
                if name.startswith("rescue"):
                    got = f.phases[name]
                    if sorted(str(x) for x in got.statements) != sorted(str(x) for x in ph.statements) or \
                            got.next_phase != ph.next_phase:
                        out.append(("phase-lost", "C16/phase-lost:extra phase altered", {"phase_sets": [ea, eb]},
                                    "phase %s was altered by the fusion" % name))
    return out


def check_mismatch():
    """mismatching initial phase / default successor must raise ValueError"""
    from dagrt.transform import fuse_two_dags
    out = []
    a = prog.build_dag([("init", [A("<p>a", "1")], "main"), ("main", [A("<p>a", "<p>a + 1")], "main")], "init")
    b1 = prog.build_dag([("init", [A("<p>b", "1")], "main"), ("main", [A("<p>b", "<p>b + 1")], "main")], "main")
    b2 = prog.build_dag([("init", [A("<p>b", "1")], "init"), ("main", [A("<p>b", "<p>b + 1")], "main")], "init")
    for what, b in (("initial phase", b1), ("default successor", b2)):
        try:
            fuse_two_dags(a, b)
            out.append(("wrong-exception", "C16/wrong-exception:%s accepted" % what, {"mismatch": what},
                        "methods disagreeing on the %s were fused without an error" % what))
        except ValueError:
            pass
        except Exception as ex:
            out.append(("wrong-exception", "C16/wrong-exception:%s %s" % (what, type(ex).__name__), {"mismatch": what},
                        "mismatching %s raised %s instead of ValueError" % (what, type(ex).__name__)))
    return out


def bodies(k, names=None):
    names = names or ATOM_NAMES
    for n in range(1, k + 1):
        yield from itertools.product(names, repeat=n)


CORE = ["u=y+1;p=u", "if", "loop", "tmp-loop", "yield", "fresh", "shared", "callkw"]


def bounds(tier):
    return {"atoms": len(ATOM_NAMES),
            "pairs": "(k<=2 x k<=1) + (k<=1 x k<=2) + (core k<=2 x core k<=2)" if tier == "quick" else
            "(k<=2 x k<=2) + (core k=3 x core k=3)", "core_atoms": len(CORE),
            "predicates": list(PREDICATES), "inputs": [0, 2], "steps": 3,
            "written_as": "pairs with <= %d atoms in total: A in {as-built, rev-ids+rev-order} x B in %s (ids permuted "
            "within the phase / statement list reversed); %slarger pairs as built" % (
                2 if tier == "quick" else 3, PRESENTATIONS,
                "pairs with 3 atoms: as built and either method rev-ids+rev-order (structural check only); "
                if tier == "quick" else "")}


def pairs(tier):
    b1 = list(bodies(1))
    b2 = list(bodies(2))
    if tier == "quick":
        seen = set()
        core2 = list(bodies(2, CORE))
        for na, nb in itertools.chain(itertools.product(b2, b1), itertools.product(b1, b2),
                                      itertools.product(core2, core2)):
            if (na, nb) not in seen:
                seen.add((na, nb))
                yield na, nb
        return
    for na in b2:
        for nb in b2:
            yield na, nb
    b3 = [b for b in bodies(3, CORE) if len(b) == 3]
    for na in b3:
        for nb in b3:
            yield na, nb


def shards(tier, seed):
    m = 64 if tier == "quick" else 256
    return [{"part": "mismatch"}] + [{"part": "pairs", "tier": tier, "mod": m, "rem": r} for r in range(m)]


HOWS = [(a, b) for a in ("as-built", "rev-ids+rev-order") for b in PRESENTATIONS]


def hows_for(na, nb, tier):
    n = len(na) + len(nb)
    if n <= 2:
        return HOWS
    if n == 3:
        return HOWS if tier == "thorough" else [HOWS[0], ("as-built", "rev-ids+rev-order"),
                                                  ("rev-ids+rev-order", "as-built")]
    return HOWS[:1]


def shrink(na, nb, pred_name, sub, how=HOWS[0]):
    na, nb = list(na), list(nb)
    changed = True
    while changed:
        changed = False
        for which in (0, 1):
            cur = na if which == 0 else nb
            for i in range(len(cur)):
                if len(cur) == 1:
                    break
                c = cur[:i] + cur[i + 1:]
                r, _ = check_pair(c if which == 0 else na, nb if which == 0 else c, pred_name, how=how)
                if r is not None and r[0] == sub:
                    if which == 0:
                        na = c
                    else:
                        nb = c
                    changed = True
                    break
            if changed:
                break
    return na, nb


def run_shard(desc, acc):
    if desc["part"] == "mismatch":
        acc.evaluations += 5
        for sub, sig, w, d in check_mismatch() + check_phase_sets():
            acc.violation(sub, sig, w, d)
        return
    for i, (na, nb) in enumerate(pairs(desc["tier"])):
        if i % desc["mod"] != desc["rem"]:
            continue
        if acc.out_of_time():
            acc.cap("time cap in shard %r" % desc)
            return
        for pred_name, how in itertools.product(PREDICATES, hows_for(na, nb, desc["tier"])):
            acc.evaluations += 1
            r, key = check_pair(na, nb, pred_name, how=how,
                                semantic=(how == HOWS[0] or len(na) + len(nb) <= 2))
            if r is not None:
                sub = r[0]
                if how != HOWS[0] and check_pair(na, nb, pred_name)[0] is not None:
                    acc.count_violation(sub)      # fails as built as well: reported there
                    continue
                if acc.want_violation(sub):
                    sa, sb = shrink(na, nb, pred_name, sub, how)
                    r2, _ = check_pair(sa, sb, pred_name, how=how)
                    acc.violation(sub, sig_of(sub, sa, sb, pred_name, how),
                                  {"A": list(sa), "B": list(sb), "predicate": pred_name, "how": list(how)}, (r2 or r)[1])
                else:
                    acc.count_violation(sub)
                continue
            acc.nontrivial += 1
            acc.outcome("%s|%s|%s" % (na, nb, pred_name))
            if i % 3000 == 0 and pred_name == "absent" and how == HOWS[0]:
                acc.sample({"A_main": list(na), "B_main": list(nb), "predicate": pred_name})


def sig_of(sub, sa, sb, pred_name, how):
    tail = "" if tuple(how) == HOWS[0] else " written=%s/%s" % tuple(how)
    return "C16/%s:A=[%s] B=[%s] predicate=%s%s" % (sub, ", ".join(sa), ", ".join(sb), pred_name, tail)


def replay(witness):
    if "mismatch" in witness or "phase_sets" in witness:
        return [{"sub": s, "sig": g, "witness": w, "detail": d} for s, g, w, d in check_mismatch() + check_phase_sets()
                if w == witness]
    na, nb, pn = witness["A"], witness["B"], witness["predicate"]
    how = tuple(witness.get("how", HOWS[0]))
    r, _ = check_pair(na, nb, pn, how=how)
    if r is None:
        return []
    sa, sb = shrink(na, nb, pn, r[0], how)
    r2, _ = check_pair(sa, sb, pn, how=how)
    return [{"sub": r[0], "sig": sig_of(r[0], sa, sb, pn, how),
             "witness": {"A": list(sa), "B": list(sb), "predicate": pn, "how": list(how)}, "detail": (r2 or r)[1]}]
