"""Independent expression evaluator for the reference models (never dagrt's EvaluationMapper).

Evaluates pymbolic trees over a plain dict.  Reading an unbound name raises Undefined
(the (program, input) pair is then outside every property's domain).
"""

import operator

import numpy as np
import pymbolic.primitives as P


class Undefined(Exception):
    pass


def ref_builtins():
    def b_len(x):
        return int(np.size(x))

    def b_isnan(x):
        return np.isnan(x)

    def _norm(p):
        def f(x):
            if np.isscalar(x):
                return abs(x)
            a = np.abs(np.asarray(x))
            if p == 1:
                return a.sum()
            if p == 2:
                return np.sqrt((a * a).sum())
            return a.max()
        return f

    def b_dot(x, y):
        return np.sum(np.conj(np.asarray(x)) * np.asarray(y))

    def b_abs(x):
        return np.abs(x)

    def b_array(n):
        if n != int(n):
            raise ValueError("array() argument n is not an integer")
        return np.full(int(n), np.nan, dtype=np.float64)

    return {
        "<builtin>len": (b_len, ("x",)),
        "<builtin>isnan": (b_isnan, ("x",)),
        "<builtin>norm_1": (_norm(1), ("x",)),
        "<builtin>norm_2": (_norm(2), ("x",)),
        "<builtin>norm_inf": (_norm(3), ("x",)),
        "<builtin>dot_product": (b_dot, ("x", "y")),
        "<builtin>elementwise_abs": (b_abs, ("x",)),
        "<builtin>array": (b_array, ("n",)),
    }


_CMP = {"==": operator.eq, "!=": operator.ne, "<": operator.lt, "<=": operator.le,
        ">": operator.gt, ">=": operator.ge}

_BUILTINS = ref_builtins()


class Evaluator:
    def __init__(self, store, funcs, on_read=None):
        self.store = store
        self.funcs = funcs      # user functions: name -> python callable
        self.on_read = on_read

    def __call__(self, e):
        return self.ev(e)

    def call(self, name, args, kwargs):
        if name in _BUILTINS:
            f, argnames = _BUILTINS[name]
            # documented binding: positional first, then by declared argument name
            bound = list(args)
            for an in argnames[len(args):]:
                if an not in kwargs:
                    raise TypeError("argument %r not specified" % an)
                bound.append(kwargs[an])
            extra = set(kwargs) - set(argnames[len(args):])
            if extra:
                raise TypeError("leftover arguments %r" % sorted(extra))
            return f(*bound)
        if name in self.funcs:
            return self.funcs[name](*args, **kwargs)
        raise ValueError("Call to unknown function: %s" % name)

    def ev(self, e):
        if isinstance(e, P.Variable):
            if self.on_read is not None:
                self.on_read(e.name)
            if e.name not in self.store:
                raise Undefined(e.name)
            return self.store[e.name]
        if isinstance(e, (bool, int, float, complex, np.generic, str)) or e is None:
            return e
        if isinstance(e, P.Sum):
            r = self.ev(e.children[0])
            for c in e.children[1:]:
                r = r + self.ev(c)
            return r
        if isinstance(e, P.Product):
            r = self.ev(e.children[0])
            for c in e.children[1:]:
                r = r * self.ev(c)
            return r
        if isinstance(e, P.Quotient):
            return self.ev(e.numerator) / self.ev(e.denominator)
        if isinstance(e, P.FloorDiv):
            return self.ev(e.numerator) // self.ev(e.denominator)
        if isinstance(e, P.Remainder):
            return self.ev(e.numerator) % self.ev(e.denominator)
        if isinstance(e, P.Power):
            return self.ev(e.base) ** self.ev(e.exponent)
        if isinstance(e, P.Comparison):
            return _CMP[e.operator](self.ev(e.left), self.ev(e.right))
        if isinstance(e, P.LogicalNot):
            return not self.ev(e.child)
        if isinstance(e, P.LogicalAnd):
            r = True
            for c in e.children:
                r = r and self.ev(c)
            return r
        if isinstance(e, P.LogicalOr):
            r = False
            for c in e.children:
                r = r or self.ev(c)
            return r
        if isinstance(e, P.If):
            if self.ev(e.condition):
                return self.ev(e.then)
            return self.ev(e.else_)
        if isinstance(e, P.Min):
            return min(self.ev(c) for c in e.children)
        if isinstance(e, P.Max):
            return max(self.ev(c) for c in e.children)
        if isinstance(e, P.Subscript):
            agg = self.ev(e.aggregate)
            idx = e.index
            if isinstance(idx, tuple):
                idx = tuple(self.ev(i) for i in idx)
                if len(idx) == 1:
                    idx = idx[0]
            else:
                idx = self.ev(idx)
            return agg[idx]
        if isinstance(e, P.CallWithKwargs):
            args = [self.ev(a) for a in e.parameters]
            kwargs = {k: self.ev(v) for k, v in e.kw_parameters.items()}
            return self.call(e.function.name, args, kwargs)
        if isinstance(e, P.Call):
            args = [self.ev(a) for a in e.parameters]
            return self.call(e.function.name, args, {})
        if isinstance(e, tuple):
            return tuple(self.ev(c) for c in e)
        if isinstance(e, np.ndarray):
            return e
        raise TypeError("reference evaluator: unsupported node %r" % type(e).__name__)


def canon(v):
    """Canonical, comparable, JSON-able form of a run-time value."""
    if isinstance(v, np.ndarray):
        if v.ndim == 0:
            return canon(v.item())
        kind = "c" if v.dtype.kind == "c" else ("o" if v.dtype.kind == "O" else "r")
        return ["arr", kind, [canon(x) for x in v.tolist()]]
    if isinstance(v, np.generic):
        v = v.item()
    if isinstance(v, bool):
        return ["bool", v]
    if isinstance(v, (int, float)):
        if isinstance(v, float):
            if v != v:
                return "nan"
            if v in (float("inf"), float("-inf")):
                return "inf" if v > 0 else "-inf"
            if v == int(v) and abs(v) < 2**60:
                return int(v)
            return v
        if abs(v) >= 2**63:
            return ["big", v.bit_length(), v % 2305843009213693951]
        return v
    if isinstance(v, complex):
        return ["cplx", canon(v.real), canon(v.imag)]
    if isinstance(v, (list, tuple)):
        return [canon(x) for x in v]
    if v is None or isinstance(v, str):
        return v
    return ["obj", type(v).__name__, repr(v)[:80]]
