"""Builder programs: one encoding, three consumers.

A *body* is a JSON-able list of ops:

  ["A", lhs, rhs, loops]            cb.assign(lhs, rhs, loops=[[ident, start, stop], ...])
                                    (strings are handed to the builder as strings; ["py", <repr>]
                                    is handed over as a Python object, e.g. float('inf'))
  ["IF", condspec, body, else]      with cb.if_(...): body   [with cb.else_(): else]   (else may be None)
        condspec: ["s", "cond"]           one string
                  ["e", "cond"]           one expression object
                  ["s3", l, op, r]        three strings
                  ["e3", l, op, r]        three-argument form with expression operands
  ["Y", expr, component, time, time_id]
  ["FAIL"] ["SW", phase] ["RESTART"] ["RAISE", kind, msg]

drive_builder()  hands the ops to the real CodeBuilder, in order.
RefStep          carries them out one after another on a plain dict (R-prog).
"""

import numpy as np

from mc.refexpr import Evaluator, Undefined, canon

PERSISTENT_PREFIXES = ("<state>", "<p>")


class HarnessError1(Exception):
    pass


class HarnessError2(Exception):
    pass


ERRORS = {"HarnessError1": HarnessError1, "HarnessError2": HarnessError2}

_parse_cache = {}


def parse(s):
    from dagrt.expression import parse as dparse
    if isinstance(s, list) and s and s[0] == "py":
        return eval(s[1], {"inf": float("inf"), "nan": float("nan")})
    if not isinstance(s, str):
        return s
    r = _parse_cache.get(s)
    if r is None:
        r = _parse_cache[s] = dparse(s)
    return r


def to_builder_arg(s):
    if isinstance(s, list) and s and s[0] == "py":
        return eval(s[1], {"inf": float("inf"), "nan": float("nan")})
    return s


def is_persistent(name):
    return name in ("<t>", "<dt>") or name.startswith(PERSISTENT_PREFIXES)


# ---------------------------------------------------------------------------
# real builder
# ---------------------------------------------------------------------------

def drive_builder(cb, body, phase_name):
    for op in body:
        k = op[0]
        if k == "A":
            loops = [(i, to_builder_arg(a), to_builder_arg(b)) for i, a, b in op[3]]
            lhs = op[1]
            if isinstance(lhs, list):      # tuple of assignees
                lhs = tuple(lhs)
            if loops:
                cb.assign(lhs, to_builder_arg(op[2]), loops=loops)
            else:
                cb.assign(lhs, to_builder_arg(op[2]))
        elif k == "IF":
            spec = op[1]
            if spec[0] == "s":
                ctx = cb.if_(spec[1])
            elif spec[0] == "e":
                ctx = cb.if_(parse(spec[1]))
            elif spec[0] == "s3":
                ctx = cb.if_(spec[1], spec[2], spec[3])
            elif spec[0] == "e3":
                ctx = cb.if_(parse(spec[1]), spec[2], parse(spec[3]))
            else:
                raise ValueError(spec)
            with ctx:
                drive_builder(cb, op[2], phase_name)
            if op[3] is not None:
                with cb.else_():
                    drive_builder(cb, op[3], phase_name)
        elif k == "Y":
            cb.yield_state(op[1], op[2], parse(op[3]), op[4])
        elif k == "FAIL":
            cb.fail_step()
        elif k == "SW":
            cb.switch_phase(op[1])
        elif k == "RESTART":
            cb.restart_step()
        elif k == "RAISE":
            cb.raise_(ERRORS[op[1]], op[2])
        else:
            raise ValueError(op)


def build_phase(name, body, next_phase, as_list=True):
    from dagrt.language import CodeBuilder, ExecutionPhase
    with CodeBuilder(name) as cb:
        drive_builder(cb, body, name)
    if as_list:
        # an ordered list is a superset of what the builder's frozenset can iterate as
        return ExecutionPhase(name=name, next_phase=next_phase, statements=list(cb.statements)), cb
    return cb.as_execution_phase(next_phase), cb


def build_dag(phases, initial):
    """phases: list of (name, body, next_phase)"""
    from dagrt.language import DAGCode
    d = {}
    for name, body, nxt in phases:
        d[name] = build_phase(name, body, nxt)[0]
    return DAGCode(d, initial)


# ---------------------------------------------------------------------------
# R-prog: program-order reference
# ---------------------------------------------------------------------------

class StepEnd(Exception):
    def __init__(self, kind, arg=None):
        self.kind = kind
        self.arg = arg


def cond_expr(spec):
    from pymbolic.primitives import Comparison
    if spec[0] in ("s", "e"):
        return parse(spec[1])
    return Comparison(parse(spec[1]), spec[2], parse(spec[3]))


class RefStep:
    """Carries out the builder calls of one phase body in the order written."""

    def __init__(self, store, funcs, phase_name):
        self.store = store
        self.funcs = funcs
        self.events = []
        self.phase_name = phase_name
        self.ev = Evaluator(store, funcs)

    def run(self, body):
        """returns ("completed"|"failed"|"switch"|"raise", arg)"""
        try:
            self.block(body)
        except StepEnd as e:
            return e.kind, e.arg
        return "completed", None

    def block(self, body):
        for op in body:
            self.op(op)

    def op(self, op):
        k = op[0]
        ev = self.ev
        if k == "A":
            self.assign(op)
        elif k == "IF":
            flag = bool(ev(cond_expr(op[1])))
            if flag:
                self.block(op[2])
            elif op[3] is not None:
                self.block(op[3])
        elif k == "Y":
            val = ev(parse(op[1]))
            t = ev(parse(op[3]))
            self.events.append(["state", canon(t), op[4], op[2], canon(val)])
        elif k == "FAIL":
            raise StepEnd("failed")
        elif k == "SW":
            raise StepEnd("switch", op[1])
        elif k == "RESTART":
            raise StepEnd("switch", self.phase_name)
        elif k == "RAISE":
            raise StepEnd("raise", op[1])
        else:
            raise ValueError(op)

    def assign(self, op):
        from pymbolic.primitives import Call, CallWithKwargs, Subscript, Variable
        ev = self.ev
        lhs, rhs, loops = op[1], parse(op[2]), op[3]
        if isinstance(lhs, list):
            targets = [parse(x) for x in lhs]
        else:
            targets = parse(lhs)
            targets = list(targets) if isinstance(targets, tuple) else [targets]
        if isinstance(rhs, (Call, CallWithKwargs)) and not loops:
            res = ev(rhs)
            if len(targets) == 0:
                return
            if len(targets) == 1:
                res = (res,)
            assert len(res) == len(targets)
            for tgt, r in zip(targets, res):
                assert isinstance(tgt, Variable)
                self.store[tgt.name] = r
            return
        tgt, = targets

        def body():
            if isinstance(tgt, Variable):
                self.store[tgt.name] = ev(rhs)
            else:
                assert isinstance(tgt, Subscript)
                idx = tgt.index
                if isinstance(idx, tuple):
                    idx, = idx
                if tgt.aggregate.name not in self.store:
                    raise Undefined(tgt.aggregate.name)
                # evaluation order of subscript vs rhs is unobservable (both are pure)
                i = ev(idx)
                self.store[tgt.aggregate.name][i] = ev(rhs)

        def nest(ls):
            if not ls:
                body()
                return
            ident, start, stop = ls[0]
            for i in range(ev(parse(start)), ev(parse(stop))):
                self.store[ident] = i
                nest(ls[1:])
        if loops:
            nest(loops)
            for ident, _, _ in loops:
                self.store.pop(ident, None)
        else:
            body()


def persistent_filter(store):
    for name in list(store):
        if not is_persistent(name):
            del store[name]


def snapshot(store):
    return {k: canon(v) for k, v in sorted(store.items()) if is_persistent(k)}


def ref_run(phases, initial, inputs, mode, funcs, horizon=16):
    """Reference stepper.  phases: {name: (body, next)}.  mode: ("run", {"max_steps":..}|{"t_end":..})
    or ("single", n).  Returns the observation list (same shape as observe_stepper)."""
    store = {"<t>": inputs["t"], "<dt>": inputs["dt"]}
    for k, v in inputs["state"].items():
        store["<state>" + k] = v
    nxt = initial
    obs = []

    def one_step():
        nonlocal nxt
        cur = nxt
        body, default = phases[cur]
        nxt = default
        st = RefStep(store, funcs, cur)
        try:
            kind, arg = st.run(body)
        except Undefined:
            raise
        except Exception as e:         # a Python-level error of the program itself
            kind, arg = "crash", type(e).__name__
        finally:
            persistent_filter(store)
        return cur, kind, arg, st.events

    if mode[0] == "run":
        t_end = mode[1].get("t_end")
        max_steps = mode[1].get("max_steps")
        n = 0
        while True:
            if t_end is not None and store["<t>"] >= t_end:
                break
            if max_steps is not None and n >= max_steps:
                break
            cur, kind, arg, events = one_step()
            obs.extend(events)
            if kind == "raise":
                obs.append(["raised", arg])
                return obs
            if kind == "crash":
                obs.append(["crash", arg, ""])
                return obs
            if kind == "failed":
                obs.append(["failed", canon(store["<t>"])])
            else:
                if kind == "switch":
                    nxt = arg
                obs.append(["completed", canon(store["<dt>"]), canon(store["<t>"]), cur, nxt])
                n += 1
            obs.append(["store", snapshot(store), nxt])
            if len(obs) >= horizon:
                obs.append(["horizon"])
                return obs
        return obs
    else:
        for _ in range(mode[1]):
            cur, kind, arg, events = one_step()
            obs.extend(events)
            if kind == "raise":
                obs.append(["raised", arg])
                return obs
            if kind == "crash":
                obs.append(["crash", arg, ""])
                return obs
            if kind == "failed":
                obs.append(["raised", "FailStepException"])
            elif kind == "switch":
                obs.append(["raised", "TransitionEvent", arg])
                nxt = arg
            obs.append(["store", snapshot(store), nxt])
        return obs


# ---------------------------------------------------------------------------
# observing real steppers (interpreter / generated class)
# ---------------------------------------------------------------------------

def _canon_event(ev):
    n = type(ev).__name__
    if n == "StateComputed":
        return ["state", canon(ev.t), ev.time_id, ev.component_id, canon(ev.state_component)]
    if n == "StepCompleted":
        return ["completed", canon(ev.dt), canon(ev.t), ev[2], ev.next_phase]
    if n == "StepFailed":
        return ["failed", canon(ev.t)]
    return ["event?", n]


def exc_kind(e):
    n = type(e).__name__
    if n == "StepError":                # generated code: condition name
        return ["raised", e.condition]
    if n in ERRORS:
        return ["raised", n]
    if n == "FailStepException":
        return ["raised", "FailStepException"]
    if n == "TransitionEvent":
        return ["raised", "TransitionEvent", e.next_phase]
    return ["crash", n, str(e)[:120]]


def observe_stepper(stepper, get_store, inputs, mode, horizon=16):
    import copy
    obs = []
    stepper.set_up(t_start=inputs["t"], dt_start=inputs["dt"],
                   context={k: copy.deepcopy(v) for k, v in inputs["state"].items()})
    try:
        if mode[0] == "run":
            for ev in stepper.run(**mode[1]):
                c = _canon_event(ev)
                obs.append(c)
                if c[0] in ("completed", "failed"):
                    obs.append(["store", get_store(stepper), stepper.next_phase])
                    if len(obs) >= horizon:
                        obs.append(["horizon"])
                        break
        else:
            for _ in range(mode[1]):
                try:
                    for ev in stepper.run_single_step():
                        obs.append(_canon_event(ev))
                except Exception as e:
                    k = exc_kind(e)
                    if k[0] == "raised" and k[1] == "TransitionEvent":
                        obs.append(k)
                        stepper.next_phase = e.next_phase
                    elif k[0] == "raised" and k[1] == "FailStepException":
                        obs.append(k)
                    else:
                        raise
                obs.append(["store", get_store(stepper), stepper.next_phase])
    except Exception as e:
        obs.append(exc_kind(e))
    return obs


def interp_store(interp):
    return snapshot(interp.context)


def make_interp(dag, funcs):
    from dagrt.exec_numpy import NumpyInterpreter
    return NumpyInterpreter(dag, funcs)


def install_store(interp, store, make_sibling=None):
    """Makes `store` (an instrumented dict) the interpreter's variable store: every reference the interpreter or the
    objects it owns (its expression evaluator) hold to the original `interp.context` dict is replaced, also inside
    chained mappings.  If the interpreter chains further mappings with it (e.g. a scratch namespace for per-step
    variables), each of them is replaced by `make_sibling()` -- an instrumented mapping reporting to the same log."""
    import collections
    orig = interp.context
    repl = {id(orig): store}
    owners = [interp] + [v for v in vars(interp).values()
                         if hasattr(v, "__dict__") and not isinstance(v, type)
                         and type(v).__module__.split(".")[0] in ("dagrt", "pymbolic")]
    chains = [val for o in owners for val in vars(o).values() if isinstance(val, collections.ChainMap)]
    for ch in chains:
        for m in ch.maps:
            if id(m) not in repl and make_sibling is not None and isinstance(m, dict):
                sib = make_sibling()
                dict.update(sib, m)
                repl[id(m)] = sib
    for o in owners:
        for name, val in list(vars(o).items()):
            if id(val) in repl:
                setattr(o, name, repl[id(val)])
    for ch in chains:
        ch.maps = [repl.get(id(m), m) for m in ch.maps]
    return store


class VarStores:
    """All mappings in which an interpreter keeps variable values: its `context` and any mapping it chains with it
    (e.g. a separate namespace for per-step variables).  Lets a harness snapshot / restore / read the complete variable
    state without assuming that everything lives in one dict."""

    def __init__(self, interp):
        import collections
        self.maps = [interp.context]
        owners = [interp] + [v for v in vars(interp).values()
                             if hasattr(v, "__dict__") and not isinstance(v, type)
                             and type(v).__module__.split(".")[0] in ("dagrt", "pymbolic")]
        for o in owners:
            for val in vars(o).values():
                if isinstance(val, collections.ChainMap):
                    for m in val.maps:
                        if isinstance(m, dict) and all(m is not x for x in self.maps):
                            self.maps.append(m)

    def snap(self):
        return [{k: (v.copy() if hasattr(v, "copy") else v) for k, v in m.items()} for m in self.maps]

    def restore(self, snaps):
        for m, sn in zip(self.maps, snaps):
            m.clear()
            for k, v in sn.items():
                m[k] = v.copy() if hasattr(v, "copy") else v

    def merged(self):
        out = {}
        for m in reversed(self.maps):
            out.update(m)
        return out


def persistent_names(dag):
    """every persistent name (<t>, <dt>, <state>*, <p>*) a statement of the method declares as read or written"""
    out = set()
    for ph in dag.phases.values():
        for st in ph.statements:
            out |= set(st.get_written_variables()) | set(st.get_read_variables())
    return {n for n in out if is_persistent(n)}


class GeneratedStepper:
    """Class emitted by the Python code generator, with the IR-name -> attribute map."""

    def __init__(self, dag, name="Stepper"):
        from dagrt.codegen.python import CodeGenerator
        self.cg = CodeGenerator(name)
        self.source = self.cg(dag)
        from dagrt.codegen.utils import exec_in_new_namespace
        self.cls = exec_in_new_namespace(self.source)[name]
        # IR name -> attribute, asked of the generator's name manager one persistent name at a time (its public
        # lookup), not read out of its internal table
        nm = getattr(self.cg, "_name_manager", None) or getattr(self.cg, "name_manager")
        self.global_map = {n: nm[n] for n in sorted(persistent_names(dag) | {"<t>", "<dt>"})}

    def new(self, funcs):
        return self.cls(funcs)

    def store(self, obj):
        out = {}
        for ir, attr in self.global_map.items():
            a = attr[len("self."):]
            if a in obj.__dict__:
                out[ir] = canon(obj.__dict__[a])
        return dict(sorted(out.items()))


def stores_agree(ref_store, impl_store, impl_known_names=None):
    """Reference vs implementation snapshot.  Names the generated class does not know
    (never referenced by the program) are unobservable there."""
    for k in set(ref_store) | set(impl_store):
        if k not in impl_store and impl_known_names is not None and k not in impl_known_names:
            continue
        if k not in ref_store and impl_store.get(k) is None:
            continue      # generated set_up stores None for absent inputs
        if ref_store.get(k, "<absent>") != impl_store.get(k, "<absent>"):
            return False
    return True


def obs_agree(ref_obs, impl_obs, impl_known_names=None):
    if len(ref_obs) != len(impl_obs):
        return False, min(len(ref_obs), len(impl_obs))
    for i, (a, b) in enumerate(zip(ref_obs, impl_obs)):
        if a[0] != b[0]:
            return False, i
        if a[0] == "store":
            if a[2] != b[2] or not stores_agree(a[1], b[1], impl_known_names):
                return False, i
        elif a[0] == "crash":
            if a[1] != b[1]:
                return False, i
        elif a != b:
            return False, i
    return True, None
