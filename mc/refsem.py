"""Reference semantics kept deliberately boring.

* eval_guard: truth value of a guard expression (flags, not/and/or, constants,
  comparisons of constants) under a truth assignment -- written against
  pymbolic's node classes, never using dagrt's evaluator.
* rtree_trace: tree-walking executor over dagrt's structured AST in *trace mode*:
  returns the sequence of (leaf id, loop-index tuple) executed.
"""

from pymbolic.primitives import (Comparison, LogicalAnd, LogicalNot, LogicalOr,
                                 Variable)


class Unknown(Exception):
    pass


def eval_guard(expr, val):
    if expr is True or expr is False:
        return expr
    if isinstance(expr, Variable):
        if expr.name not in val:
            raise Unknown(expr.name)
        return val[expr.name]
    if isinstance(expr, LogicalNot):
        return not eval_guard(expr.child, val)
    if isinstance(expr, LogicalAnd):
        return all([eval_guard(c, val) for c in expr.children])
    if isinstance(expr, LogicalOr):
        return any([eval_guard(c, val) for c in expr.children])
    if isinstance(expr, Comparison):
        import operator
        ops = {"==": operator.eq, "!=": operator.ne, "<": operator.lt, "<=": operator.le,
               ">": operator.gt, ">=": operator.ge}
        return ops[expr.operator](eval_num(expr.left, val), eval_num(expr.right, val))
    if isinstance(expr, (bool, int)):
        return bool(expr)
    raise Unknown(repr(expr))


def eval_num(expr, val):
    from pymbolic.primitives import Product, Sum
    if isinstance(expr, (int, float)):
        return expr
    if isinstance(expr, Variable):
        if expr.name not in val:
            raise Unknown(expr.name)
        return val[expr.name]
    if isinstance(expr, Sum):
        return sum(eval_num(c, val) for c in expr.children)
    if isinstance(expr, Product):
        r = 1
        for c in expr.children:
            r *= eval_num(c, val)
        return r
    raise Unknown(repr(expr))


def rtree_trace(node, val, out=None, idx=(), env=None, leaf_id=lambda s: s.id):
    """Trace-mode execution of a dagrt structured AST.

    val: truth/number assignment for guard atoms and loop-bound variables.
    Leaves must be StatementWrapper; a NullASTNode executes nothing.
    Returns list of (leaf id, loop index tuple).
    """
    from dagrt.codegen.dag_ast import (Block, ForLoop, IfThen, IfThenElse,
                                       NullASTNode, StatementWrapper)
    if out is None:
        out = []
    if env is None:
        env = dict(val)
    if isinstance(node, StatementWrapper):
        out.append((leaf_id(node.statement), idx))
    elif isinstance(node, NullASTNode):
        pass
    elif isinstance(node, Block):
        for ch in node.children:
            rtree_trace(ch, val, out, idx, env, leaf_id)
    elif isinstance(node, IfThenElse):
        if eval_guard(node.condition, env):
            rtree_trace(node.then, val, out, idx, env, leaf_id)
        else:
            rtree_trace(node.else_, val, out, idx, env, leaf_id)
    elif isinstance(node, IfThen):
        if eval_guard(node.condition, env):
            rtree_trace(node.then, val, out, idx, env, leaf_id)
    elif isinstance(node, ForLoop):
        lo = eval_num(node.lbound, env)
        hi = eval_num(node.ubound, env)
        for i in range(lo, hi):
            env2 = dict(env)
            env2[node.loop_var_name] = i
            rtree_trace(node.body, val, out, idx + ((node.loop_var_name, i),), env2, leaf_id)
    else:
        raise TypeError("unknown AST node %r" % type(node).__name__)
    return out
