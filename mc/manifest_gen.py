"""Regenerates /verif/MANIFEST.json from the check modules (run: /venv/bin/python -m mc.manifest_gen)."""
import importlib
import json
import os
import sys

HERE = os.path.dirname(os.path.dirname(os.path.abspath(__file__)))
sys.path.insert(0, HERE)
sys.path.insert(0, os.environ.get("DAGRT_REPO", "/repo"))

ALL = ["C%02d" % i for i in range(1, 21)]

NOT_BUILT_REASON = "check not built yet in this session (planned, see DESIGN.md section 3); not claimed"


def main():
    checks = []
    na = []
    for pid in ALL:
        path = os.path.join(HERE, "mc", "checks", pid.lower() + ".py")
        if not os.path.exists(path):
            na.append({"property_id": pid, "reason": NOT_BUILT_REASON})
            continue
        m = importlib.import_module("mc.checks." + pid.lower())
        entry = {
            "property_id": pid,
            "quick_cmd": "./check %s --tier quick" % pid,
            "thorough_cmd": "./check %s --tier thorough" % pid,
            "evidence_file": "/verif/evidence/%s.json" % pid,
            "replay_cmd_template": "./check %s --replay {path}" % pid,
            "engine": "mc-kernel",
            "level_claimed": {
                "category": m.LEVEL,
                "text": m.LEVEL_TEXT,
                "design_ref": "DESIGN.md section 3, %s" % pid,
            },
            "level_note": m.LEVEL_NOTE,
            "technique": m.TECHNIQUE,
        }
        checks.append(entry)
    man = {
        "version": 1,
        "setup_cmd": "cd /verif && /venv/bin/python -c \"import sys; sys.path.insert(0,'/verif'); import mc.kernel\"",
        "hooks": {
            "guard": "DAGRT_VERIF",
            "enable": "no source hooks are needed: every observation point is reachable from outside "
                      "(checks import dagrt from /repo's working tree; DAGRT_VERIF is unused)",
            "baseline_off_cmd": "cd /repo && /venv/bin/python -m pytest -ra -q -p no:cacheprovider --timeout=900",
            "source_commits": [],
            "add_only": True,
        },
        "engines": [{
            "name": "mc-kernel",
            "path": "/verif/mc/kernel.py",
            "serves_properties": [c["property_id"] for c in checks],
            "kind_free_text": "hand-written bounded exhaustive explorer for the real dagrt code: size-ordered "
                              "enumeration of programs/trees/graphs/name sets, all schedules / valuations / fault "
                              "points per case, reference-model oracles, 16-way sharding, replay files",
        }],
        "checks": checks,
        "notes": open(os.path.join(HERE, "mc", "MANIFEST_NOTES.txt")).read()
        if os.path.exists(os.path.join(HERE, "mc", "MANIFEST_NOTES.txt")) else "",
        "not_applicable": na,
    }
    with open(os.path.join(HERE, "MANIFEST.json"), "w") as f:
        json.dump(man, f, indent=1)
        f.write("\n")
    print("wrote MANIFEST.json: %d checks, %d not claimed" % (len(checks), len(na)))


if __name__ == "__main__":
    main()
