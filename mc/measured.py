"""prints one line per check with the measured numbers of the evidence files (used to refresh DESIGN.md section 9)"""
import json
import os
import sys

d = os.path.join(os.path.dirname(os.path.dirname(os.path.abspath(__file__))), "evidence")
for i in range(1, 21):
    p = os.path.join(d, "C%02d.json" % i)
    if not os.path.exists(p):
        continue
    e = json.load(open(p))
    c = e.get("coverage", {})
    mc = c.get("model_checking", {}) if isinstance(c, dict) else {}
    print("C%02d tier=%s wall=%ss %s" % (i, e.get("tier"), e.get("wall_s"), json.dumps(
        {k: v for k, v in c.items() if isinstance(v, (int, float, str)) and k not in ("rule",)})[:400]))
