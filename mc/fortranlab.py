"""Fortran lab: generate -> gfortran -> run -> parse, for C03 / C12 / C15.

The driver is generated from the state type found in the emitted module: after initialize and
after every run() call it prints every field of dagrt_state_type (scalars with ES25.17, arrays /
user-type vectors element by element, association status of pointers) and dagrt_next_phase.
Scratch directories live under /dev/shm (or $TMPDIR) and are removed after each program.
"""

import os
import re
import shutil
import subprocess
import tempfile

SCRATCH_ROOT = "/dev/shm" if os.path.isdir("/dev/shm") else os.environ.get("TMPDIR", "/tmp")


def parse_state_type(code):
    """[(field name, class)] with class in {real, integer, logical, array, pointer-array}"""
    m = re.search(r"type dagrt_state_type\n(.*?)\n\s*end type", code, re.S)
    fields = []
    if not m:
        return fields
    # join continuation lines
    text = re.sub(r"&\s*\n\s*", " ", m.group(1))
    for line in text.split("\n"):
        line = line.strip()
        if not line or line.startswith("!"):
            continue
        name = line.split("::")[-1].split()[-1] if "::" in line else line.split()[-1]
        low = line.lower()
        if "pointer" in low and "dimension" not in low:
            continue          # pointer to a scalar: the generator's reference counters, not a value of the method
        if "dimension" in low:
            cls = "pointer-array" if "pointer" in low else "array"
        elif low.startswith("logical"):
            cls = "logical"
        elif low.startswith("integer"):
            cls = "integer"
        elif low.startswith("complex"):
            cls = "complex"
        else:
            cls = "real"
        fields.append((name, cls))
    return fields


def driver_source(module, fields, init_args, n_calls, overrides=None, shutdown=True, arrays=None, shapes=None):
    """init_args: {fortran keyword: python float or list}.  overrides: {call index: {field: value}} applied before
    that run call (lets the history control guards per call)."""
    L = []
    A = L.append
    A("program drv")
    A("  use %s, only: dagrt_state_type, initialize, run, shutdown" % module)
    A("  implicit none")
    A("  type(dagrt_state_type), target :: st")
    A("  type(dagrt_state_type), pointer :: sp")
    A("  integer :: k, j")
    shapes = shapes or {}
    for name, val in init_args.items():
        if isinstance(val, (list, tuple)):
            A("  real*8, dimension(%d) :: in_%s" % (len(val), name))
            if name in shapes:
                # a user type laid out with several axes: the same values, in memory order
                A("  real*8, dimension(%s) :: in2_%s" % (",".join(str(d) for d in shapes[name]), name))
    A("  sp => st")
    for name, val in init_args.items():
        if isinstance(val, (list, tuple)):
            for i, v in enumerate(val):
                A("  in_%s(%d) = %s" % (name, i + 1, fnum(v)))
            if name in shapes:
                A("  in2_%s = reshape(in_%s, (/ %s /))" % (name, name, ", ".join(str(d) for d in shapes[name])))
    args = ["dagrt_state=sp"]
    for name, val in init_args.items():
        if isinstance(val, (list, tuple)):
            args.append("%s=%s_%s" % (name, "in2" if name in shapes else "in", name))
        else:
            args.append("%s=%s" % (name, fnum(val)))
    A("  call initialize(%s)" % ", &\n    ".join(args))
    A("  write(*,'(A)') '@@ after init'")
    dump(L, fields)
    for k in range(n_calls):
        for fld, v in (overrides or {}).get(k, {}).items():
            A("  st%%%s = %s" % (fld, fnum(v)))
        A("  call run(dagrt_state=sp)")
        A("  write(*,'(A,I0)') '@@ after run ', %d" % (k + 1))
        dump(L, fields)
    if shutdown:
        A("  call shutdown(dagrt_state=sp)")
        A("  write(*,'(A)') '@@ after shutdown'")
    A("end program")
    return "\n".join(L) + "\n"


def fnum(v):
    r = repr(float(v))
    if "e" in r:
        return r.replace("e", "d")
    return r + "d0"


def dump(L, fields):
    A = L.append
    A("  write(*,'(A,I0)') 'F dagrt_next_phase I ', st%dagrt_next_phase")
    for name, cls in fields:
        if name == "dagrt_next_phase":
            continue
        if cls == "real":
            A("  write(*,'(A,ES25.17E3)') 'F %s R ', st%%%s" % (name, name))
        elif cls == "complex":
            A("  write(*,'(A,2ES25.17E3)') 'F %s C ', st%%%s" % (name, name))
        elif cls == "integer":
            A("  write(*,'(A,I0)') 'F %s I ', st%%%s" % (name, name))
        elif cls == "logical":
            A("  write(*,'(A,L1)') 'F %s L ', st%%%s" % (name, name))
        else:
            test = "associated" if cls == "pointer-array" else "allocated"
            A("  if (%s(st%%%s)) then" % (test, name))
            A("    write(*,'(A,I0,A,I0)') 'F %s A ', size(st%%%s), ' ', lbound(st%%%s, 1)" % (name, name, name))
            # all elements in memory order, one per record (format reversion), whatever the rank
            A("    write(*,\"('  E ',ES25.17E3)\") st%%%s" % name)
            A("  else")
            A("    write(*,'(A)') 'F %s N'" % name)
            A("  end if")


def parse_output(out):
    """-> list of (label, {field: value}) ; arrays as lists"""
    blocks = []
    cur = None
    arr = None
    for line in out.split("\n"):
        if line.startswith("@@"):
            cur = {}
            blocks.append((line[3:].strip(), cur))
            arr = None
        elif line.startswith("F ") and cur is not None:
            parts = line.split()
            name, kind = parts[1], parts[2]
            if kind == "R":
                cur[name] = fval(parts[3])
            elif kind == "C":
                cur[name] = complex(fval(parts[3]), fval(parts[4]))
            elif kind == "I":
                cur[name] = int(parts[3])
            elif kind == "L":
                cur[name] = parts[3] == "T"
            elif kind == "A":
                arr = []
                cur[name] = {"lbound": int(parts[4]), "values": arr}
            elif kind == "N":
                cur[name] = None
        elif line.startswith("  E ") and arr is not None:
            arr.append(fval(line.split()[1]))
    return blocks


def fval(s):
    s = s.strip()
    try:
        return float(s)
    except ValueError:
        if "nan" in s.lower():
            return float("nan")
        if "inf" in s.lower():
            return float("-inf") if s.startswith("-") else float("inf")
        raise


class Lab:
    def __init__(self, tag="lab"):
        self.dir = tempfile.mkdtemp(prefix="verif_%s_" % tag, dir=SCRATCH_ROOT)

    def close(self):
        shutil.rmtree(self.dir, ignore_errors=True)

    def __enter__(self):
        return self

    def __exit__(self, *a):
        self.close()

    def build(self, module_code, driver_code, flags=(), name="m"):
        """returns (ok, stderr)"""
        for f in os.listdir(self.dir):
            p = os.path.join(self.dir, f)
            if os.path.isfile(p):
                os.remove(p)
        with open(os.path.join(self.dir, name + ".f90"), "w") as f:
            f.write(module_code)
        with open(os.path.join(self.dir, "drv.f90"), "w") as f:
            f.write(driver_code)
        r = subprocess.run(["gfortran", "-g", "-O0", "-ffree-line-length-none", "-o", "prog"] + list(flags) +
                           [name + ".f90", "drv.f90", "-llapack", "-lblas"],
                           cwd=self.dir, capture_output=True, text=True)
        return r.returncode == 0, r.stderr

    def run(self, env=None, timeout=60):
        e = dict(os.environ)
        if env:
            e.update(env)
        try:
            r = subprocess.run([os.path.join(self.dir, "prog")], cwd=self.dir, capture_output=True, text=True,
                               env=e, timeout=timeout)
        except subprocess.TimeoutExpired:
            return None, "", "TIMEOUT"
        return r.returncode, r.stdout, r.stderr
