"""R-nf: commutative-ring normal form for pymbolic expressions, plus concrete evaluation.

nf(e) maps e to a polynomial {monomial: Fraction}; a monomial is a sorted tuple of (atom, power);
atoms are variable names or canonical strings of opaque nodes (calls with normalised arguments,
comparisons, logical nodes, conditionals, subscripts, non-constant powers, non-constant quotients).
Equal normal forms imply equal values under every valuation and every interpretation of the
function symbols.  A difference is only *reported* by callers together with a concrete
valuation found by witness().
"""

import hashlib
import itertools
from fractions import Fraction

import pymbolic.primitives as P


def _const(c):
    return {(): Fraction(c)} if c != 0 else {}


def _add(p, q):
    r = dict(p)
    for m, c in q.items():
        v = r.get(m, 0) + c
        if v == 0:
            r.pop(m, None)
        else:
            r[m] = v
    return r


def _mul(p, q):
    r = {}
    for m1, c1 in p.items():
        for m2, c2 in q.items():
            d = dict(m1)
            for a, e in m2:
                d[a] = d.get(a, 0) + e
            m = tuple(sorted(d.items()))
            v = r.get(m, 0) + c1 * c2
            if v == 0:
                r.pop(m, None)
            else:
                r[m] = v
    return r


def key(p):
    return "{" + ",".join("%s:%s" % ("*".join("%s^%d" % (a, e) for a, e in m), c)
                          for m, c in sorted(p.items())) + "}"


def _atom(s):
    return {((s, 1),): Fraction(1)}


def nf(e):
    if isinstance(e, bool):
        return _atom("bool:%s" % e)
    if isinstance(e, (int, Fraction)):
        return _const(e)
    if isinstance(e, float):
        if e == int(e):
            return _const(int(e))
        return _const(Fraction(e))
    if isinstance(e, complex):
        return _atom("complex:%r" % e)
    if isinstance(e, P.Variable):
        return _atom("v:" + e.name)
    if isinstance(e, P.Sum):
        r = {}
        for c in e.children:
            r = _add(r, nf(c))
        return r
    if isinstance(e, P.Product):
        r = _const(1)
        for c in e.children:
            r = _mul(r, nf(c))
        return r
    if isinstance(e, P.Power):
        ex = e.exponent
        if isinstance(ex, int) and not isinstance(ex, bool) and 0 <= ex <= 6:
            r = _const(1)
            b = nf(e.base)
            for _ in range(ex):
                r = _mul(r, b)
            return r
        return _atom("pow(%s,%s)" % (key(nf(e.base)), key(nf(ex))))
    if isinstance(e, P.Quotient):
        d = nf(e.denominator)
        if list(d.keys()) == [()] and d[()] != 0:
            return _mul(nf(e.numerator), _const(1 / d[()]))
        return _atom("quot(%s,%s)" % (key(nf(e.numerator)), key(d)))
    if isinstance(e, P.FloorDiv):
        return _atom("floordiv(%s,%s)" % (key(nf(e.numerator)), key(nf(e.denominator))))
    if isinstance(e, P.Remainder):
        return _atom("rem(%s,%s)" % (key(nf(e.numerator)), key(nf(e.denominator))))
    if isinstance(e, P.CallWithKwargs):
        return _atom("call(%s;%s;%s)" % (key(nf(e.function)), ",".join(key(nf(a)) for a in e.parameters),
                                         ",".join("%s=%s" % (k, key(nf(v)))
                                                  for k, v in sorted(e.kw_parameters.items()))))
    if isinstance(e, P.Call):
        return _atom("call(%s;%s;)" % (key(nf(e.function)), ",".join(key(nf(a)) for a in e.parameters)))
    if isinstance(e, P.Comparison):
        return _atom("cmp(%s%s%s)" % (key(nf(e.left)), e.operator, key(nf(e.right))))
    if isinstance(e, P.LogicalNot):
        return _atom("not(%s)" % key(nf(e.child)))
    if isinstance(e, P.LogicalAnd):
        return _atom("and(%s)" % ",".join(key(nf(c)) for c in e.children))
    if isinstance(e, P.LogicalOr):
        return _atom("or(%s)" % ",".join(key(nf(c)) for c in e.children))
    if isinstance(e, P.If):
        return _atom("if(%s,%s,%s)" % (key(nf(e.condition)), key(nf(e.then)), key(nf(e.else_))))
    if isinstance(e, P.Subscript):
        idx = e.index if isinstance(e.index, tuple) else (e.index,)
        return _atom("sub(%s;%s)" % (key(nf(e.aggregate)), ",".join(key(nf(i)) for i in idx)))
    if isinstance(e, P.Min):
        return _atom("min(%s)" % ",".join(sorted(key(nf(c)) for c in e.children)))
    if isinstance(e, P.Max):
        return _atom("max(%s)" % ",".join(sorted(key(nf(c)) for c in e.children)))
    if isinstance(e, tuple):
        return _atom("tuple(%s)" % ",".join(key(nf(c)) for c in e))
    if isinstance(e, str):
        return _atom("str:" + e)
    if e is None:
        return _atom("None")
    raise TypeError("nf: unsupported node %s" % type(e).__name__)


def same(e1, e2):
    return nf(e1) == nf(e2)


# ---- concrete evaluation with hashed (uninterpreted) function symbols ---------------------------

class FuncVal:
    """value of a function symbol: an injective-looking hash interpretation"""

    def __init__(self, name):
        self.name = name

    def __call__(self, *a, **k):
        s = repr((self.name, tuple(_norm(x) for x in a), tuple(sorted((n, _norm(v)) for n, v in k.items()))))
        return int.from_bytes(hashlib.blake2b(s.encode(), digest_size=4).digest(), "big") % 1000003

    def __eq__(self, o):
        return isinstance(o, FuncVal) and o.name == self.name

    def __hash__(self):
        return hash(self.name)

    def __repr__(self):
        return "F<%s>" % self.name


def _norm(x):
    if isinstance(x, Fraction) and x.denominator == 1:
        return int(x)
    if isinstance(x, float) and x == int(x):
        return int(x)
    return x


def evaluate(e, val):
    """val: name -> number or FuncVal (a name used in call position that is unbound evaluates to FuncVal(name))"""
    from mc.refexpr import Evaluator

    class Ev(Evaluator):
        def call(self, name, args, kwargs):
            f = val.get(name)
            if f is None:
                f = FuncVal(name)
            if not callable(f):
                f = FuncVal("num:%r" % (f,))
            return f(*args, **kwargs)

        def ev(self, x):
            if isinstance(x, (P.Call, P.CallWithKwargs)) and not isinstance(x.function, P.Variable):
                fv = self.ev(x.function)
                args = [self.ev(a) for a in x.parameters]
                kw = {k: self.ev(v) for k, v in getattr(x, "kw_parameters", {}).items()} \
                    if isinstance(x, P.CallWithKwargs) else {}
                if not callable(fv):
                    fv = FuncVal("num:%r" % (fv,))
                return fv(*args, **kw)
            if isinstance(x, P.Quotient):
                return Fraction(self.ev(x.numerator)) / Fraction(self.ev(x.denominator))
            if isinstance(x, P.Power):
                b, ex = self.ev(x.base), self.ev(x.exponent)
                if isinstance(ex, Fraction) and ex.denominator == 1:
                    ex = int(ex)
                if not isinstance(ex, int) or isinstance(ex, bool) or abs(ex) > 40:
                    raise OverflowError("exponent outside the exactly evaluated range")
                if isinstance(b, (int, Fraction)) and abs(b) > 10**6:
                    raise OverflowError("base outside the exactly evaluated range")
                if ex < 0:
                    return Fraction(1) / (Fraction(b) ** (-ex))
                return b ** ex
            return super().ev(x)
    store = dict(val)
    return Ev(store, {})(e)


def collect(e, vars_, funcs):
    """names used as values / in call position (own walker, independent of dagrt's mappers)"""
    if isinstance(e, P.Variable):
        vars_.add(e.name)
    elif isinstance(e, (P.Call, P.CallWithKwargs)):
        if isinstance(e.function, P.Variable):
            funcs.add(e.function.name)
        else:
            collect(e.function, vars_, funcs)
        for a in e.parameters:
            collect(a, vars_, funcs)
        if isinstance(e, P.CallWithKwargs):
            for v in e.kw_parameters.values():
                collect(v, vars_, funcs)
    elif isinstance(e, (P.Sum, P.Product, P.LogicalAnd, P.LogicalOr, P.Min, P.Max)):
        for c in e.children:
            collect(c, vars_, funcs)
    elif isinstance(e, (P.Quotient, P.FloorDiv, P.Remainder)):
        collect(e.numerator, vars_, funcs)
        collect(e.denominator, vars_, funcs)
    elif isinstance(e, P.Power):
        collect(e.base, vars_, funcs)
        collect(e.exponent, vars_, funcs)
    elif isinstance(e, P.Comparison):
        collect(e.left, vars_, funcs)
        collect(e.right, vars_, funcs)
    elif isinstance(e, P.LogicalNot):
        collect(e.child, vars_, funcs)
    elif isinstance(e, P.If):
        collect(e.condition, vars_, funcs)
        collect(e.then, vars_, funcs)
        collect(e.else_, vars_, funcs)
    elif isinstance(e, P.Subscript):
        collect(e.aggregate, vars_, funcs)
        for i in (e.index if isinstance(e.index, tuple) else (e.index,)):
            collect(i, vars_, funcs)
    elif isinstance(e, tuple):
        for c in e:
            collect(c, vars_, funcs)


def variables(e):
    v, f = set(), set()
    collect(e, v, f)
    return sorted(v), sorted(f)


GRID = [2, 3, 5, -1, 1, 0, 4, -2]


def witness(e1, e2, max_points=40):
    """a valuation on which e1 and e2 evaluate differently, or None"""
    v1s, f1s = variables(e1)
    v2s, f2s = variables(e2)
    names = sorted(set(v1s) | set(v2s))
    fnames = sorted(set(f1s) | set(f2s))
    count = 0
    for shift in range(len(GRID)):
        val = {n: GRID[(i * 3 + shift) % len(GRID)] for i, n in enumerate(names)}
        for fn in fnames:
            if fn in val:
                val[fn] = FuncVal("both:" + fn)    # a name used both as value and as function
            else:
                val[fn] = FuncVal(fn)
        count += 1
        try:
            v1 = evaluate(e1, val)
            v2 = evaluate(e2, val)
        except (ZeroDivisionError, OverflowError, ValueError, TypeError):
            continue        # this valuation is outside the exactly evaluated domain: try another
        if _norm(v1) != _norm(v2):
            return {"valuation": val, "left": repr(v1), "right": repr(v2)}
        if count >= max_points:
            break
    return None
